import Vore.Lemmas.SimTop
import Vore.Lemmas.GenR
/-!
# Vore.Lemmas.SimR — the simulation for resolved expressions with subroutines (C01 stage 2)

Same statement as `Lemmas/Sim.lean`, for `genR` / `mrN`: additionally the call stack.  New invariants:
`TopOk C off` (the innermost active subroutine starts before the code being run, so `VALIDATECALL`
pushes a frame exactly when a subroutine node is entered by falling into it) and the call level in
`LsOk2` (loops of outer activations never alias the loops of the code being run).  Calls are handled
by an outer induction on the call-depth fuel of the specification.
-/
namespace Vore
open Vore.Spec

/-- loops on the stack: unnamed, not deeper than the current call level, and at the current call level
only ids not below `n` -/
def LsOk2 (L : List LoopSt) (C : List CallSt) (n : Nat) : Prop :=
  ∀ l ∈ L, l.name = "" ∧ l.callLevel ≤ C.length ∧ (l.callLevel = C.length → n ≤ l.id)

theorem LsOk2.mono {L C n n'} (h : LsOk2 L C n) (hn : n' ≤ n) : LsOk2 L C n' :=
  fun l hl => ⟨(h l hl).1, (h l hl).2.1, fun he => Nat.le_trans hn ((h l hl).2.2 he)⟩

/-- entering a deeper call level: nothing on the loop stack belongs to it -/
theorem LsOk2.push {L C n} (h : LsOk2 L C n) (c : CallSt) (n' : Nat) : LsOk2 L (c :: C) n' :=
  fun l hl => ⟨(h l hl).1, Nat.le_succ_of_le (h l hl).2.1, fun he => by
    have := (h l hl).2.1; simp only [List.length_cons] at he; omega⟩

/-- the innermost active subroutine starts before `off` -/
def TopOk (C : List CallSt) (off : Nat) : Prop := ∀ c, C.head? = some c → c.id < off

theorem TopOk.mono {C off off'} (h : TopOk C off) (hle : off ≤ off') : TopOk C off' :=
  fun c hc => Nat.lt_of_lt_of_le (h c hc) hle

/-- first entry of a loop, with the top of the loop stack known to belong to another loop or level -/
theorem startLoop_fresh2 (pc ex id : Nat) (mx : Int) (fewest : Bool) (d : Data) (L : List LoopSt)
    (V : List (String × Nat)) (C : List CallSt) (bt : List Core)
    (hL : ∀ top, L.head? = some top → top.id ≠ id ∨ top.callLevel ≠ C.length) :
    VMState.startLoop ⟨mkCore pc d L V C, bt⟩ id 0 mx fewest ex "" =
      loopDecide pc ex mx fewest d (freshLoop id C d) L V C bt := by
  unfold VMState.startLoop
  simp only
  cases L with
  | nil =>
    simp only [mkCore]
    exact startLoop_decide pc ex id mx fewest d (freshLoop id C d) [] V C bt rfl []
  | cons top rest =>
    have hb : (top.id != id || top.callLevel != C.length) = true := by
      rcases hL top rfl with h | h <;> simp [h]
    simp only [mkCore, hb, if_true]
    exact startLoop_decide pc ex id mx fewest d (freshLoop id C d) (top :: rest) V C bt rfl (top :: rest)

section
variable {pf : Nat} {prog : List Instr} {text : Bytes} {lf : Nat} {pcOf : Nat → Nat} {ρ : Procs}

/-- the simulation statement for one resolved expression and one semantics function `f` -/
def SimF (pf : Nat) (prog : List Instr) (text : Bytes) (pcOf : Nat → Nat)
    (f : RExpr → Data → SK → FK → Option SRes) (e : RExpr) : Prop :=
  ∀ off nid, At prog off (genR pcOf e off nid).1 → Consistent pcOf e off → WfR e →
    ∀ d L V C bt ks fk r, LsOk2 L C (genR pcOf e off nid).2 → TopOk C off →
      KOk pf prog text (off + lenR e) L V C ks → Rep pf prog text bt fk →
      f e d ks fk = some r → Ev pf prog text ⟨mkCore off d L V C, bt⟩ r

/-- where the code of a subroutine sits -/
structure ProcAt (prog : List Instr) (pcOf : Nat → Nat) (id : Nat) (x : String) (body : RExpr) (pred : Stmt) : Prop where
  start : prog[pcOf id]? = some (.startSub (pcOf id) x (pcOf id + 1 + lenR body))
  code : ∃ nid, At prog (pcOf id + 1) (genR pcOf body (pcOf id + 1) nid).1
  stop : prog[pcOf id + 1 + lenR body]? = some (.endSub x pred)
  cons : Consistent pcOf body (pcOf id + 1)
  wf : WfR body

def AllProcs (prog : List Instr) (pcOf : Nat → Nat) (ρ : Procs) : Prop :=
  ∀ id x body pred, ρ.find id = some (x, body, pred) → ProcAt prog pcOf id x body pred

/-- returning from a subroutine: pop the frame, apply the predicate -/
theorem kreturn {pcE ret id : Nat} {x : String} {pred : Stmt} {L V C ks}
    (hend : prog[pcE]? = some (.endSub x pred)) (hks : KOk pf prog text ret L V C ks) :
    KOk pf prog text pcE L V (⟨id, ret⟩ :: C) (withPred pf pred ks) := by
  intro d fk' bt' r hrep hk
  unfold withPred at hk
  have hlt := lt_of_getElem? hend
  by_cases hskip : (pred == .skip) = true
  · simp only [predHolds, hskip, if_true] at hk
    refine ev_step (s' := ⟨mkCore ret d L V C, bt'⟩) hlt ?_ (hks d fk' bt' r hrep hk)
    simp [step, hend, mkCore, hskip]
  · simp only [predHolds, hskip, Bool.false_eq_true, if_false] at hk
    cases hrun : runProcess pf pred [("match", .str d.cur), ("matchLength", .num d.cur.length)] with
    | error t => simp [hrun] at hk
    | ok ov =>
      cases ov with
      | none => simp [hrun] at hk
      | some v =>
        simp only [hrun] at hk
        by_cases hv : v.getBoolean = true
        · simp only [hv] at hk
          refine ev_step (s' := ⟨mkCore ret d L V C, bt'⟩) hlt ?_ (hks d fk' bt' r hrep hk)
          simp [step, hend, mkCore, hskip, hrun, hv]
        · have hv' : v.getBoolean = false := by simpa using hv
          simp only [hv'] at hk
          refine ev_backtrack hlt ?_ (hrep r hk)
          simp [step, hend, mkCore, hskip, hrun, hv']

end

section loopR
variable {pf : Nat} {prog : List Instr} {text : Bytes} {lf : Nat} {pcOf : Nat → Nat}
  (fb : RExpr → Data → SK → FK → Option SRes)
  (body : RExpr) (hb : SimF pf prog text pcOf fb body) (off nid : Nat) (mx : Int) (fewest : Bool)
  (L : List LoopSt) (V : List (String × Nat)) (C : List CallSt) (ks : SK)
include hb

theorem simR_loopDecide
    (hstart : prog[off]? = some (.startLoop (genR pcOf body (off + 1) nid).2 0 mx fewest (off + lenR body + 1) ""))
    (hbody : At prog (off + 1) (genR pcOf body (off + 1) nid).1)
    (hcons : Consistent pcOf body (off + 1)) (hwf : WfR body)
    (hstop : prog[off + lenR body + 1]? = some (.stopLoop (genR pcOf body (off + 1) nid).2 off))
    (hL : LsOk2 L C ((genR pcOf body (off + 1) nid).2 + 1)) (hT : TopOk C off)
    (hks : KOk pf prog text (off + lenR body + 2) L V C ks) :
    ∀ fuel k d top bt fk r, top.id = (genR pcOf body (off + 1) nid).2 → top.callLevel = C.length → top.name = "" →
      top.iter = k → top.startLen = d.cur.length → Rep pf prog text bt fk →
      loopV (fb body) mx fewest fuel k d ks fk = some r →
      EvStep pf prog text (loopDecide off (off + lenR body + 1) mx fewest d top L V C bt) r := by
  intro fuel
  induction fuel with
  | zero => intro k d top bt fk r _ _ _ _ _ _ h; simp [loopV] at h
  | succ fuel ih =>
    intro k d top bt fk r hid hcl hname hk hsl hfk h
    simp only [loopV] at h
    unfold loopDecide
    rw [hk]
    have hL' : LsOk2 (top :: L) C (genR pcOf body (off + 1) nid).2 := by
      intro l hl
      simp only [List.mem_cons] at hl
      rcases hl with rfl | hl
      · exact ⟨hname, by rw [hcl]; exact Nat.le_refl _, fun _ => by rw [hid]; exact Nat.le_refl _⟩
      · exact ⟨(hL l hl).1, (hL l hl).2.1, fun he => Nat.le_trans (Nat.le_succ _) ((hL l hl).2.2 he)⟩
    have hT' : TopOk C (off + 1) := hT.mono (Nat.le_succ _)
    have hagain : KOk pf prog text (off + 1 + lenR body) (top :: L) V C (fun d' fk' =>
        if d'.cur.length == d.cur.length then fk' () else loopV (fb body) mx fewest fuel (k + 1) d' ks fk') := by
      intro d' fk' bt' r' hrep' hk'
      have e : off + 1 + lenR body = off + lenR body + 1 := by omega
      rw [e]
      refine ev_step (s' := ⟨mkCore off d' (top :: L) V C, bt'⟩) (lt_of_getElem? hstop) ?_ ?_
      · simp [step, hstop, mkCore]
      refine ev_of_step (lt_of_getElem? hstart) ?_
      simp only [step, mkCore_pc, hstart]
      rw [startLoop_reenter off _ _ mx fewest d' top L V C bt' hid hcl hname]
      by_cases hz : (d'.cur.length == d.cur.length) = true
      · have hz' : (top.startLen == d'.cur.length) = true := by
          rw [hsl]; simp only [beq_iff_eq] at hz ⊢; exact hz.symm
        simp only [hz, if_true] at hk'
        simp only [hz', if_true]
        exact evStep_backtrack (hrep' r' hk')
      · have hz' : (top.startLen == d'.cur.length) = false := by
          rw [hsl]; simp only [beq_iff_eq] at hz; simp only [beq_eq_false_iff_ne]; exact fun h => hz h.symm
        simp only [hz] at hk'
        simp only [hz', Bool.false_eq_true, if_false]
        exact ih (k + 1) d' (nextLoop top d') bt' fk' r' (by simp [nextLoop, hid]) (by simp [nextLoop, hcl])
          (by simp [nextLoop, hname]) (by simp [nextLoop, hk]) (by simp [nextLoop]) hrep' hk'
    by_cases hc : (mx == -1 || decide ((k : Int) ≤ mx)) = true
    · simp only [hc, if_true] at h ⊢
      cases fewest with
      | true =>
        simp only [if_true] at h ⊢
        have e2 : off + lenR body + 1 + 1 = off + lenR body + 2 := by omega
        rw [e2]
        refine hks d _ _ r ?_ h
        intro r' hr'
        apply evBt_cons
        exact hb (off + 1) nid hbody hcons hwf d (top :: L) V C bt _ fk r' hL' hT' hagain hfk hr'
      | false =>
        simp only [Bool.false_eq_true, if_false] at h ⊢
        refine hb (off + 1) nid hbody hcons hwf d (top :: L) V C _ _ _ r hL' hT' hagain ?_ h
        intro r' hr'
        apply evBt_cons
        have e2 : off + lenR body + 1 + 1 = off + lenR body + 2 := by omega
        rw [e2]
        exact hks d fk bt r' hfk hr'
    · simp only [hc, Bool.false_eq_true, if_false] at h ⊢
      exact evStep_backtrack (hfk r h)

theorem simR_loopFresh
    (hstart : prog[off]? = some (.startLoop (genR pcOf body (off + 1) nid).2 0 mx fewest (off + lenR body + 1) ""))
    (hbody : At prog (off + 1) (genR pcOf body (off + 1) nid).1)
    (hcons : Consistent pcOf body (off + 1)) (hwf : WfR body)
    (hstop : prog[off + lenR body + 1]? = some (.stopLoop (genR pcOf body (off + 1) nid).2 off))
    (hL : LsOk2 L C ((genR pcOf body (off + 1) nid).2 + 1)) (hT : TopOk C off)
    (hks : KOk pf prog text (off + lenR body + 2) L V C ks) (lf : Nat) :
    KOk pf prog text off L V C (fun d fk => loopV (fb body) mx fewest lf 0 d ks fk) := by
  intro d fk bt r hfk h
  refine ev_of_step (lt_of_getElem? hstart) ?_
  simp only [step, mkCore_pc, hstart]
  rw [startLoop_fresh2 off _ _ mx fewest d L V C bt (fun top htop => by
    have hm : top ∈ L := by cases L with
      | nil => simp at htop
      | cons a rest => simp at htop; subst htop; simp
    by_cases hc : top.callLevel = C.length
    · left; have := (hL top hm).2.2 hc; omega
    · right; exact hc)]
  exact simR_loopDecide fb body hb off nid mx fewest L V C ks hstart hbody hcons hwf hstop hL hT hks lf 0 d _ bt fk r
    rfl rfl rfl rfl rfl hfk h

end loopR

section stepR
variable {pf : Nat} {prog : List Instr} {text : Bytes} {lf : Nat} {pcOf : Nat → Nat} {ρ : Procs}

/-- one level of call depth: if called bodies are simulated, every expression is -/
theorem simR_step (callK : RExpr → Data → SK → FK → Option SRes)
    (hcall : ∀ e', SimF pf prog text pcOf callK e') (hprocs : AllProcs prog pcOf ρ) :
    ∀ e, SimF pf prog text pcOf (mrWith text lf pf ρ callK) e := by
  intro e
  induction e with
  | empty =>
    intro off nid _ _ _ d L V C bt ks fk r _ _ hks hfk hm
    simp only [mrWith] at hm
    have := hks d fk bt r hfk hm
    simpa [lenR] using this
  | seq a b iha ihb =>
    intro off nid hat hc hwf d L V C bt ks fk r hL hT hks hfk hm
    simp only [genR] at hat hL
    simp only [mrWith] at hm
    have hata := hat.app_left
    have hatb := hat.app_right
    rw [genR_length] at hatb hL
    refine iha off nid hata hc.1 hwf.1 d L V C bt _ fk r (hL.mono (genR_nid_mono pcOf b _ _)) hT ?_ hfk hm
    intro d' fk' bt' r' hrep' hk'
    refine ihb (off + lenR a) _ hatb hc.2 hwf.2 d' L V C bt' ks fk' r' hL (hT.mono (Nat.le_add_right _ _)) ?_ hrep' hk'
    simpa [lenR, Nat.add_assoc] using hks
  | atom a =>
    intro off nid hat _ _ d L V C bt ks fk r _ _ hks hfk hm
    have h0 : prog[off]? = some (genAtom a) := by simpa [genR] using hat.head
    simp only [mrWith] at hm
    exact sim_leaf (atomD text a d) (lt_of_getElem? h0) (step_atom pf prog text _ a (by simpa using h0))
      (by simpa [lenR] using hks) hfk hm
  | backref x =>
    intro off nid hat _ _ d L V C bt ks fk r _ _ hks hfk hm
    have h0 : prog[off]? = some (.mvar x) := by simpa [genR] using hat.head
    simp only [mrWith] at hm
    exact sim_leaf (backrefD text x d) (lt_of_getElem? h0) (step_mvar pf prog text _ x (by simpa using h0))
      (by simpa [lenR] using hks) hfk hm
  | call x id =>
    intro off nid hat _ _ d L V C bt ks fk r hL hT hks hfk hm
    have h0 : prog[off]? = some (.call x (pcOf id)) := by simpa [genR] using hat.head
    simp only [mrWith] at hm
    cases hf : ρ.find id with
    | none => simp [hf] at hm
    | some entry =>
      obtain ⟨y, body, pred⟩ := entry
      simp only [hf] at hm
      have hp := hprocs id y body pred hf
      obtain ⟨nidb, hcode⟩ := hp.code
      -- CALL: push the frame and jump to the subroutine; its StartSubroutine sees its own frame on top
      refine ev_step (s' := ⟨mkCore (pcOf id) d L V (⟨pcOf id, off + 1⟩ :: C), bt⟩) (lt_of_getElem? h0) ?_ ?_
      · simp [step, h0, mkCore]
      refine ev_step (s' := ⟨mkCore (pcOf id + 1) d L V (⟨pcOf id, off + 1⟩ :: C), bt⟩) (lt_of_getElem? hp.start) ?_ ?_
      · simp [step, hp.start, mkCore]
      refine hcall body (pcOf id + 1) nidb hcode hp.cons hp.wf d L V _ bt _ fk r (hL.push _ _) ?_ ?_ hfk hm
      · intro c hc; simp at hc; subst hc; exact Nat.lt_succ_self _
      · exact kreturn hp.stop (by simpa [lenR] using hks)
  | star mx fewest body ih =>
    intro off nid hat hc hwf d L V C bt ks fk r hL hT hks hfk hm
    simp only [genR] at hat hL
    simp only [mrWith] at hm
    have hst := hat.app_left.app_left
    have hbody : At prog (off + 1) (genR pcOf body (off + 1) nid).1 := by simpa using hat.app_left.app_right
    have hstop := hat.app_right
    simp only [List.length_append, List.length_cons, List.length_nil, genR_length] at hst hstop
    have hstart := hst.head
    have hstopi : prog[off + lenR body + 1]? = some (.stopLoop (genR pcOf body (off + 1) nid).2 off) := by
      have := hstop.head; rw [← this]; congr 1; omega
    have hk2 : KOk pf prog text (off + lenR body + 2) L V C ks := by
      have e2 : off + lenR body + 2 = off + lenR (.star mx fewest body) := by simp [lenR]; omega
      rw [e2]; exact hks
    exact simR_loopFresh (mrWith text lf pf ρ callK) body ih off nid mx fewest L V C ks hstart hbody hc hwf hstopi hL hT hk2 lf
      d fk bt r hfk hm
  | branch l r ihl ihr =>
    intro off nid hat hc hwf d L V C bt ks fk r' hL hT hks hfk hm
    simp only [genR] at hat hL
    have h1 : At prog off [Instr.branch [off + 1, off + (genR pcOf l (off + 1) nid).1.length + 2]] :=
      hat.app_left.app_left.app_left.app_left
    have h2 : At prog (off + 1) (genR pcOf l (off + 1) nid).1 := by
      simpa using hat.app_left.app_left.app_left.app_right
    have h3 := hat.app_left.app_left.app_right
    have h4 := hat.app_left.app_right
    have h5 := hat.app_right
    simp only [List.length_append, List.length_cons, List.length_nil, genR_length] at h1 h3 h4 h5 hL
    have hbr := h1.head
    have hj1 := h3.head
    have hj2 := h5.head
    simp only [mrWith] at hm
    have kj : ∀ pcj, prog[pcj]? = some (.jump (off + lenR l + lenR r + 3)) → KOk pf prog text pcj L V C ks := by
      intro pcj hj
      exact kjump hj (by simpa [lenR, Nat.add_assoc] using hks)
    refine ev_step (s' := ⟨mkCore (off + 1) d L V C, mkCore (off + lenR l + 2) d L V C :: bt⟩)
      (lt_of_getElem? hbr) ?_ ?_
    · simp [step, hbr, VMState.branch, mkCore]
    refine ihl (off + 1) nid h2 hc.1 hwf.1 d L V C _ ks _ r' (hL.mono (genR_nid_mono pcOf r _ _)) (hT.mono (Nat.le_succ _)) ?_ ?_ hm
    · apply kj; rw [← hj1]; congr 1; omega
    · intro r'' hm'
      apply evBt_cons
      have e2 : off + 2 + lenR l = off + lenR l + 2 := by omega
      have hatb : At prog (off + lenR l + 2) (genR pcOf r (off + lenR l + 2) (genR pcOf l (off + 1) nid).2).1 := by
        rw [e2] at h4; exact h4.cast (by omega)
      have hL2 : LsOk2 L C (genR pcOf r (off + lenR l + 2) (genR pcOf l (off + 1) nid).2).2 := by
        rw [e2] at hL; exact hL
      have hc2 : Consistent pcOf r (off + lenR l + 2) := by rw [← e2]; exact hc.2
      refine ihr (off + lenR l + 2) _ hatb hc2 hwf.2 d L V C bt ks fk r'' hL2 (hT.mono (by omega)) ?_ hfk hm'
      apply kj; rw [← hj2]; congr 1; omega
  | dec x body ih =>
    intro off nid hat hc hwf d L V C bt ks fk r hL hT hks hfk hm
    simp only [genR] at hat hL
    have h0 : prog[off]? = some (.startVar x) := hat.app_left.app_left.head
    have hbody : At prog (off + 1) (genR pcOf body (off + 1) nid).1 := by simpa using hat.app_left.app_right
    have hend := hat.app_right
    simp only [List.length_append, List.length_cons, List.length_nil, genR_length] at hend
    have h2 : prog[off + lenR body + 1]? = some (.endVar x) := by
      have := hend.head; rw [← this]; congr 1; omega
    simp only [mrWith] at hm
    refine ev_step (s' := ⟨mkCore (off + 1) d L ((x, d.cur.length) :: V) C, bt⟩) (lt_of_getElem? h0) ?_ ?_
    · simp [step, h0, mkCore]
    refine ih (off + 1) nid hbody hc hwf d L _ C bt _ fk r hL (hT.mono (Nat.le_succ _)) ?_ hfk hm
    intro d' fk' bt' r' hrep' hk'
    have e : off + 1 + lenR body = off + lenR body + 1 := by omega
    rw [e]
    refine ev_step (s' := ⟨mkCore (off + lenR body + 2) (bindD d' x (d'.cur.drop d.cur.length)) L V C, bt'⟩)
      (lt_of_getElem? h2) ?_ ?_
    · have hins : insertInLoops L x (.str (d'.cur.drop d.cur.length)) = none :=
        insertInLoops_unnamed x _ L (fun l hl => (hL l hl).1)
      simp [step, h2, mkCore, Core.insertVar, hins, bindD]
    · have e3 : off + lenR body + 2 = off + lenR (.dec x body) := by simp [lenR]; omega
      rw [e3]
      exact hks (bindD d' x (d'.cur.drop d.cur.length)) fk' bt' r' hrep' hk'
  | sub id x body pred ih =>
    intro off nid hat hc hwf d L V C bt ks fk r hL hT hks hfk hm
    simp only [genR] at hat hL
    have h0 := hat.app_left.app_left.head
    have hbody : At prog (off + 1) (genR pcOf body (off + 1) nid).1 := by simpa using hat.app_left.app_right
    have hend := hat.app_right
    simp only [List.length_append, List.length_cons, List.length_nil, genR_length] at h0 hend
    have h2 : prog[off + lenR body + 1]? = some (.endSub x pred) := by
      have := hend.head; rw [← this]; congr 1; omega
    simp only [mrWith] at hm
    -- falling into the subroutine: VALIDATECALL pushes a frame that returns behind its EndSubroutine
    have e0 : off + 1 + lenR body + 1 = off + lenR body + 1 + 1 := by omega
    refine ev_step (s' := ⟨mkCore (off + 1) d L V (⟨off, off + lenR body + 1 + 1⟩ :: C), bt⟩) (lt_of_getElem? h0) ?_ ?_
    · cases C with
      | nil => simp [step, h0, mkCore, e0]
      | cons top rest =>
        have hne : top.id ≠ off := Nat.ne_of_lt (hT top rfl)
        simp [step, h0, mkCore, hne, e0]
    refine ih (off + 1) nid hbody hc.2 hwf d L V _ bt _ fk r (hL.push _ _) ?_ ?_ hfk hm
    · intro c hcc; simp at hcc; subst hcc; exact Nat.lt_succ_self _
    · have e : off + 1 + lenR body = off + lenR body + 1 := by omega
      rw [e]
      refine kreturn h2 ?_
      have e3 : off + lenR body + 1 + 1 = off + lenR (.sub id x body pred) := by simp [lenR]; omega
      rw [e3]; exact hks
  | inl neg items =>
    intro off nid hat _ hwf d L V C bt ks fk r _ _ hks hfk hm
    cases neg with
    | false =>
      simp only [genR] at hat
      simp only [mrWith] at hm
      cases items with
      | nil =>
        rcases hwf with h | h
        · cases h
        · exact absurd rfl h
      | cons a rest =>
        have h0 := hat.app_left.head
        have hitems : At prog (off + 1) (genInItems (a :: rest) (off + 1 + 2 * (a :: rest).length)) := by
          simpa using hat.app_right
        have hks' : KOk pf prog text (off + 1 + 2 * (a :: rest).length) L V C ks := by
          have e : off + 1 + 2 * (a :: rest).length = off + lenR (.inl false (a :: rest)) := by simp [lenR]; omega
          rw [e]; exact hks
        have hmain := sim_inAlts (off + 1 + 2 * (a :: rest).length) hks' d (a :: rest) (off + 1) bt fk r hitems hfk hm (by simp)
        have hts : (List.range (rest.length + 1)).map (fun i => off + 1 + 2 * i) =
            (off + 1) :: (List.range rest.length).map (fun i => off + 1 + 2 + 2 * i) := by
          simp only [List.range_succ_eq_map, List.map_cons, List.map_map]
          congr 1
          apply List.map_congr_left
          intro i _
          simp only [Function.comp]
          omega
        refine ev_step (lt_of_getElem? h0) ?_ hmain
        simp only [step, mkCore_pc, h0, List.length_cons, hts, VMState.branch, List.map_map, Nat.add_sub_cancel]
        rfl
    | true =>
      simp only [genR] at hat
      simp only [mrWith] at hm
      refine sim_notIn (listMaxSize items) d items off bt fk r hat ?_ hfk hm
      have e : off + 3 * items.length + 1 = off + lenR (.inl true items) := by simp [lenR]; omega
      rw [e]; exact hks

end stepR

section topR
variable {pf : Nat} {prog : List Instr} {text : Bytes} {lf : Nat} {pcOf : Nat → Nat} {ρ : Procs}

/-- every call depth -/
theorem simR_all (hprocs : AllProcs prog pcOf ρ) :
    ∀ cf e, SimF pf prog text pcOf (mrN text lf pf ρ cf) e := by
  intro cf
  induction cf with
  | zero =>
    intro e
    exact simR_step (fun _ _ _ _ => none) (fun e' off nid _ _ _ d L V C bt ks fk r _ _ _ _ h => by simp at h) hprocs e
  | succ cf ih =>
    intro e
    exact simR_step (mrN text lf pf ρ cf) ih hprocs e

/-- the subroutine nodes of code that sits in the program are where `pcOf` says -/
theorem procs_at (e : RExpr) : ∀ off nid, At prog off (genR pcOf e off nid).1 → Consistent pcOf e off → WfR e →
    ∀ id x b p, (id, x, b, p) ∈ procsOf e → ProcAt prog pcOf id x b p := by
  induction e with
  | empty => intro off nid _ _ _ id x b p h; simp [procsOf] at h
  | seq a b iha ihb =>
    intro off nid hat hc hwf id x bb p h
    simp only [genR] at hat
    simp only [procsOf, List.mem_append] at h
    rcases h with h | h
    · exact iha off nid hat.app_left hc.1 hwf.1 id x bb p h
    · have hatb := hat.app_right
      rw [genR_length] at hatb
      exact ihb _ _ hatb hc.2 hwf.2 id x bb p h
  | atom a => intro off nid _ _ _ id x b p h; simp [procsOf] at h
  | backref y => intro off nid _ _ _ id x b p h; simp [procsOf] at h
  | call y i => intro off nid _ _ _ id x b p h; simp [procsOf] at h
  | star mx fw body ih =>
    intro off nid hat hc hwf id x b p h
    simp only [genR] at hat
    have hbody : At prog (off + 1) (genR pcOf body (off + 1) nid).1 := by simpa using hat.app_left.app_right
    exact ih _ _ hbody hc hwf id x b p (by simpa [procsOf] using h)
  | branch l r ihl ihr =>
    intro off nid hat hc hwf id x b p h
    simp only [genR] at hat
    simp only [procsOf, List.mem_append] at h
    have h2 : At prog (off + 1) (genR pcOf l (off + 1) nid).1 := by
      simpa using hat.app_left.app_left.app_left.app_right
    have h4 := hat.app_left.app_right
    simp only [List.length_append, List.length_cons, List.length_nil, genR_length] at h4
    rcases h with h | h
    · exact ihl _ _ h2 hc.1 hwf.1 id x b p h
    · have e2 : off + 2 + lenR l = off + lenR l + 2 := by omega
      have hatb : At prog (off + 2 + lenR l) (genR pcOf r (off + 2 + lenR l) (genR pcOf l (off + 1) nid).2).1 :=
        h4.cast (by omega)
      exact ihr _ _ hatb hc.2 hwf.2 id x b p h
  | dec y body ih =>
    intro off nid hat hc hwf id x b p h
    simp only [genR] at hat
    have hbody : At prog (off + 1) (genR pcOf body (off + 1) nid).1 := by simpa using hat.app_left.app_right
    exact ih _ _ hbody hc hwf id x b p (by simpa [procsOf] using h)
  | sub i y body pred ih =>
    intro off nid hat hc hwf id x b p h
    simp only [genR] at hat
    have h0 := hat.app_left.app_left.head
    have hbody : At prog (off + 1) (genR pcOf body (off + 1) nid).1 := by simpa using hat.app_left.app_right
    have hend := hat.app_right
    simp only [List.length_append, List.length_cons, List.length_nil, genR_length] at h0 hend
    simp only [procsOf, List.mem_cons] at h
    rcases h with h | h
    · simp only [Prod.mk.injEq] at h
      obtain ⟨rfl, rfl, rfl, rfl⟩ := h
      have hpc := hc.1
      refine ⟨by rw [hpc]; exact h0, ⟨nid, by rw [hpc]; exact hbody⟩, ?_, by rw [hpc]; exact hc.2, hwf⟩
      rw [hpc]
      have := hend.head
      rw [← this]; congr 1; omega
    · exact ih _ _ hbody hc.2 hwf id x b p h
  | inl neg items => intro off nid _ _ _ id x b p h; simp [procsOf] at h

theorem allProcs_of_at (e : RExpr) (nid : Nat) (hat : At prog 0 (genR pcOf e 0 nid).1) (hc : Consistent pcOf e 0)
    (hwf : WfR e) : AllProcs prog pcOf (procsOf e) := by
  intro id x body pred hf
  unfold Procs.find at hf
  cases hfind : List.find? (fun (q : Nat × String × RExpr × Stmt) => q.1 == id) (procsOf e) with
  | none => simp [hfind] at hf
  | some q =>
    simp only [hfind, Option.map_some, Option.some.injEq] at hf
    have hmem := List.mem_of_find?_eq_some hfind
    have hid : q.1 = id := by simpa using List.find?_some hfind
    obtain ⟨qi, qx, qb, qp⟩ := q
    simp only at hid hf
    subst hid
    simp only [Prod.mk.injEq] at hf
    obtain ⟨rfl, rfl, rfl⟩ := hf
    exact procs_at e 0 nid hat hc hwf _ _ _ _ hmem

/-- one attempt on the code of a whole command body -/
theorem attemptR_sim (pf : Nat) (text : Bytes) (lf cf : Nat) (e : RExpr) (pcOf : Nat → Nat) (nid : Nat)
    (hc : Consistent pcOf e 0) (hwf : WfR e) (pos line col : Nat) (r : SRes)
    (h : attemptR text lf pf cf e pos line col = some r) :
    Ev pf (genR pcOf e 0 nid).1 text (initState pos line col) r := by
  have hat : At (genR pcOf e 0 nid).1 0 (genR pcOf e 0 nid).1 := by intro i _; simp
  have hprocs := allProcs_of_at (prog := (genR pcOf e 0 nid).1) e nid hat hc hwf
  have := simR_all (pf := pf) (text := text) (lf := lf) hprocs cf e 0 nid hat hc hwf
    ⟨pos, line, col, [], .nil⟩ [] [] [] [] (fun d _ => some (.matched d)) (fun _ => some .fail) r
    (by intro l hl; simp at hl) (by intro c hcc; simp at hcc) ?_ ?_ h
  · exact this
  · intro d fk' bt' r' _ hk
    simp only [Option.some.injEq] at hk
    subst hk
    refine ⟨1, .success (mkCore (0 + lenR e) d [] [] []), ?_, rfl⟩
    simp [run, genR_length]
  · intro r' hk
    simp only [Option.some.injEq] at hk
    subst hk
    rfl

/-- `findMatches` on the code of a resolved body returns the window of `Spec.findAllR`, whenever the
specification answers -/
theorem findMatches_specR (pf : Nat) (text : Bytes) (cf : Nat) (e : RExpr) (pcOf : Nat → Nat) (nid : Nat)
    (hc : Consistent pcOf e 0) (hwf : WfR e) (hne : lenR e ≠ 0) (A : List Match)
    (h : findAllR text pf cf e = some A) :
    ∃ vf0, ∀ vf, vf0 ≤ vf → ∀ amt, findMatches pf vf (genR pcOf e 0 nid).1 amt text = some (.ok (window amt A)) := by
  unfold findAllR at h
  split at h
  · next h0 =>
    simp only [Option.some.injEq] at h; subst h
    exact ⟨0, fun vf _ amt => by simp [findMatches, h0, window_nil]⟩
  · next h0 =>
    obtain ⟨vf0, hv⟩ := scan_sim_with pf text (genR pcOf e 0 nid).1 _
      (fun pos line col r hr => attemptR_sim pf text _ cf e pcOf nid hc hwf pos line col r hr) _ [] 0 1 1 A (by omega) h
    refine ⟨vf0, fun vf hle amt => ?_⟩
    apply findMatches_window
    have hl : (genR pcOf e 0 nid).1.length ≠ 0 := by rw [genR_length]; exact hne
    simp only [findMatches, h0, hl, if_false]
    exact hv vf hle

end topR

end Vore

namespace Vore
open Vore.Spec

/-- `pcOf` agrees with the address map on every subroutine node of `e` ⇒ consistent -/
theorem consistent_of_agree (pcOf : Nat → Nat) (e : RExpr) : ∀ off,
    (∀ id pc, (id, pc) ∈ pcMap e off → pcOf id = pc) → Consistent pcOf e off := by
  induction e with
  | empty => intro off _; trivial
  | seq a b iha ihb =>
    intro off h
    exact ⟨iha off (fun id pc hm => h id pc (by simp [pcMap, hm])),
           ihb _ (fun id pc hm => h id pc (by simp [pcMap, hm]))⟩
  | atom a => intro off _; trivial
  | backref x => intro off _; trivial
  | call x id => intro off _; trivial
  | star mx fw body ih => intro off h; exact ih _ (fun id pc hm => h id pc (by simpa [pcMap] using hm))
  | branch l r ihl ihr =>
    intro off h
    exact ⟨ihl _ (fun id pc hm => h id pc (by simp [pcMap, hm])),
           ihr _ (fun id pc hm => h id pc (by simp [pcMap, hm]))⟩
  | dec x body ih => intro off h; exact ih _ (fun id pc hm => h id pc (by simpa [pcMap] using hm))
  | sub i x body pred ih =>
    intro off h
    exact ⟨h i off (by simp [pcMap]), ih _ (fun id pc hm => h id pc (by simp [pcMap, hm]))⟩
  | inl neg items => intro off _; trivial

theorem pcLookup_of_nodup : ∀ (m : List (Nat × Nat)), (m.map (·.1)).Nodup →
    ∀ id pc, (id, pc) ∈ m → pcLookup m id = pc := by
  intro m
  induction m with
  | nil => intro _ id pc h; simp at h
  | cons kv rest ih =>
    intro hnd id pc hmem
    simp only [List.map_cons, List.nodup_cons] at hnd
    simp only [List.mem_cons] at hmem
    unfold pcLookup
    simp only [List.find?_cons]
    rcases hmem with rfl | hmem
    · simp
    · have hne : kv.1 ≠ id := by
        intro he
        apply hnd.1
        rw [he]
        exact List.mem_map_of_mem (f := (·.1)) hmem
      have hb : (kv.1 == id) = false := by simpa using hne
      simp only [hb]
      exact ih hnd.2 id pc hmem

/-- subroutine ids are pairwise distinct -/
def UniqueSubs (e : RExpr) : Prop := ((pcMap e 0).map (·.1)).Nodup

instance (e : RExpr) : Decidable (UniqueSubs e) := by unfold UniqueSubs; infer_instance

theorem consistent_genBody (e : RExpr) (hu : UniqueSubs e) : Consistent (pcLookup (pcMap e 0)) e 0 :=
  consistent_of_agree _ e 0 (fun id pc hm => pcLookup_of_nodup _ hu id pc hm)

/-- C01 stage 2, core statement: for a resolved command body with pairwise distinct subroutine ids
and non-empty `in` lists, whenever the specification answers (call depth `cf`), the VM running the
two-pass generator's code returns, under every amount tuple, the window of the specification's
matches. -/
theorem findMatches_genBody (pf : Nat) (text : Bytes) (cf : Nat) (e : RExpr) (nid : Nat)
    (hu : UniqueSubs e) (hwf : WfR e) (hne : lenR e ≠ 0) (A : List Match)
    (h : findAllR text pf cf e = some A) :
    ∃ vf0, ∀ vf, vf0 ≤ vf → ∀ amt, findMatches pf vf (genBody e nid).1 amt text = some (.ok (window amt A)) :=
  findMatches_specR pf text cf e _ nid (consistent_genBody e hu) hwf hne A h

end Vore
