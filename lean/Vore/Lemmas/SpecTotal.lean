import Vore.Spec.Search
import Vore.Lemmas.GenCF
import Vore.Lemmas.Locate
/-!
# Vore.Lemmas.SpecTotal — the specification always answers (call-free fragment)

With loop fuel `lf > |text|` the semantics `m` never runs out of fuel: an optional iteration
must consume, and what is consumed is bounded by the text.  Together with the simulation this is
C10 on the call-free fragment.
-/
namespace Vore
open Vore.Spec

/-- data within the text -/
def Good (text : Bytes) (p0 : Nat) (d : Data) : Prop := d.pos ≤ text.length ∧ d.pos = p0 + d.cur.length

/-- `d'` is `d` or `d` after consuming -/
def Adv (text : Bytes) (d d' : Data) : Prop := d' = d ∨ ∃ n, d' = consumeD text d n

theorem good_consume {text : Bytes} {p0 : Nat} {d : Data} (h : Good text p0 d) (n : Nat) :
    Good text p0 (consumeD text d n) ∧ d.cur.length ≤ (consumeD text d n).cur.length := by
  have hs := (readAt_spec text d.pos n).2 h.1
  have h2 := h.2
  simp only [consumeD, Good, List.length_append]
  exact ⟨⟨hs, by omega⟩, by omega⟩

theorem Adv.good {text : Bytes} {p0 : Nat} {d d' : Data} (h : Adv text d d') (hg : Good text p0 d) :
    Good text p0 d' ∧ d.cur.length ≤ d'.cur.length := by
  rcases h with rfl | ⟨n, rfl⟩
  · exact ⟨hg, Nat.le_refl _⟩
  · exact good_consume hg n

theorem adv_anchor {text : Bytes} {d d' : Data} {c n : Bool} (h : anchorD d c n = some d') : Adv text d d' := by
  unfold anchorD at h; split at h <;> simp at h; exact Or.inl h.symm

theorem adv_lit {text : Bytes} {d d' : Data} {v : Bytes} {n c : Bool} (h : litD text v n c d = some d') :
    Adv text d d' := by
  unfold litD at h
  by_cases h1 : (readAt text d.pos v.length).length = 0
  · simp [h1] at h
  · simp only [h1, if_false] at h
    by_cases h2 : ((if c = true then equalFoldAscii v (readAt text d.pos v.length) else v == readAt text d.pos v.length) != n) = true
    · simp only [h2, if_true, Option.some.injEq] at h; exact Or.inr ⟨_, h.symm⟩
    · simp [h2] at h

theorem adv_rangeLoop {text : Bytes} {d d' : Data} {lo hi : Bytes} {n : Bool} :
    ∀ k, rangeLoopD text lo hi n d k = some d' → Adv text d d' := by
  intro k
  induction k with
  | zero => intro h; simp [rangeLoopD] at h
  | succ k ih =>
    intro h
    unfold rangeLoopD at h
    split at h
    · exact ih h
    · split at h
      · simp at h; exact Or.inr ⟨_, h.symm⟩
      · exact ih h

theorem adv_range {text : Bytes} {d d' : Data} {lo hi : Bytes} {n : Bool} (h : rangeD text lo hi n d = some d') :
    Adv text d d' := adv_rangeLoop _ h

theorem adv_class {text : Bytes} {d d' : Data} {c : Class} {n : Bool} (h : classD text c n d = some d') :
    Adv text d d' := by
  unfold classD at h
  cases c <;> simp only at h <;> (repeat' split at h) <;>
    first
      | (simp at h; done)
      | exact adv_range h
      | exact adv_anchor h
      | (simp only [Option.some.injEq] at h; exact Or.inl h.symm)
      | (simp only [Option.some.injEq] at h; exact Or.inr ⟨_, h.symm⟩)

theorem adv_atom {text : Bytes} {d d' : Data} {a : Atom} (h : atomD text a d = some d') : Adv text d d' := by
  cases a with
  | str n c s => exact adv_lit h
  | cls n c => exact adv_class h
  | range lo hi => exact adv_range h

theorem adv_backref {text : Bytes} {d d' : Data} {x : String} (h : backrefD text x d = some d') : Adv text d d' := by
  unfold backrefD at h
  split at h
  · simp at h
  · simp at h
  · split at h
    · simp at h; exact Or.inl h.symm
    · exact adv_lit h

section
variable {text : Bytes} {p0 : Nat} {Q : Option SRes → Prop}

/-- a continuation-taking matcher that always answers, from good data, when its continuations do -/
def BodyTotal (text : Bytes) (p0 : Nat) (Q : Option SRes → Prop) (mb : Data → SK → FK → Option SRes) : Prop :=
  ∀ d ks fk, Good text p0 d →
    (∀ d' fk', Good text p0 d' → d.cur.length ≤ d'.cur.length → Q (fk' ()) → Q (ks d' fk')) →
    Q (fk ()) → Q (mb d ks fk)

theorem repeatM_total {mb} (hb : BodyTotal text p0 Q mb) : ∀ n, BodyTotal text p0 Q (Spec.repeatM mb n) := by
  intro n
  induction n with
  | zero => intro d ks fk hg hks hfk; simp only [Spec.repeatM]; exact hks d fk hg (Nat.le_refl _) hfk
  | succ n ih =>
    intro d ks fk hg hks hfk
    simp only [Spec.repeatM]
    refine hb d _ fk hg ?_ hfk
    intro d' fk' hg' hle hfk'
    exact ih d' ks fk' hg' (fun d'' fk'' hg'' hle' hfk'' => hks d'' fk'' hg'' (Nat.le_trans hle hle') hfk'') hfk'

theorem loopV_total {mb} (hb : BodyTotal text p0 Q mb) (mx : Int) (fewest : Bool) :
    ∀ fuel k d ks fk, Good text p0 d → text.length - d.cur.length < fuel →
      (∀ d' fk', Good text p0 d' → d.cur.length ≤ d'.cur.length → Q (fk' ()) → Q (ks d' fk')) →
      Q (fk ()) → Q (loopV mb mx fewest fuel k d ks fk) := by
  intro fuel
  induction fuel with
  | zero => intro k d ks fk _ hlt; omega
  | succ fuel ih =>
    intro k d ks fk hg hlt hks hfk
    have hlen : d.cur.length ≤ text.length := by have := hg.1; have := hg.2; omega
    simp only [loopV]
    -- the continuation after one more iteration
    have hagain : ∀ d' fk', Good text p0 d' → d.cur.length ≤ d'.cur.length → Q (fk' ()) →
        Q (if d'.cur.length == d.cur.length then fk' () else loopV mb mx fewest fuel (k + 1) d' ks fk') := by
      intro d' fk' hg' hle hfk'
      split
      · exact hfk'
      · next hne =>
        have hne' : d'.cur.length ≠ d.cur.length := by simpa using hne
        have hlen' : d'.cur.length ≤ text.length := by have := hg'.1; have := hg'.2; omega
        exact ih (k + 1) d' ks fk' hg' (by omega)
          (fun d'' fk'' hg'' hle' hfk'' => hks d'' fk'' hg'' (Nat.le_trans hle hle') hfk'') hfk'
    split
    · split
      · exact hks d _ hg (Nat.le_refl _) (hb d _ fk hg hagain hfk)
      · exact hb d _ _ hg hagain (hks d fk hg (Nat.le_refl _) hfk)
    · exact hfk

theorem inAlts_total : ∀ items : List Atom, BodyTotal text p0 Q (inAlts text items) := by
  intro items
  induction items with
  | nil => intro d ks fk _ _ hfk; simp only [inAlts]; exact hfk
  | cons a rest ih =>
    intro d ks fk hg hks hfk
    simp only [inAlts]
    split
    · next d' ha =>
      have := (adv_atom ha).good hg
      exact hks d' _ this.1 this.2 (ih d ks fk hg hks hfk)
    · exact ih d ks fk hg hks hfk

theorem m_total (lf : Nat) (hlf : text.length < lf) (e : Expr) (hcf : CallFree e) : BodyTotal text p0 Q (m text lf e) := by
  induction e with
  | empty => intro d ks fk hg hks hfk; simp only [m]; exact hks d fk hg (Nat.le_refl _) hfk
  | seq a b iha ihb =>
    intro d ks fk hg hks hfk
    simp only [m]
    refine iha hcf.1 d _ fk hg ?_ hfk
    intro d' fk' hg' hle hfk'
    exact ihb hcf.2 d' ks fk' hg' (fun d'' fk'' hg'' hle' hfk'' => hks d'' fk'' hg'' (Nat.le_trans hle hle') hfk'') hfk'
  | atom a =>
    intro d ks fk hg hks hfk
    simp only [m]
    split
    · next d' ha => have := (adv_atom ha).good hg; exact hks d' fk this.1 this.2 hfk
    · exact hfk
  | var x =>
    intro d ks fk hg hks hfk
    simp only [m]
    split
    · next d' ha => have := (adv_backref ha).good hg; exact hks d' fk this.1 this.2 hfk
    · exact hfk
  | loop mn mx fewest name body ih =>
    intro d ks fk hg hks hfk
    simp only [m]
    refine repeatM_total (ih hcf.2) mn d _ fk hg ?_ hfk
    intro d' fk' hg' hle hfk'
    split
    · exact hks d' fk' hg' hle hfk'
    · have hlen' : d'.cur.length ≤ text.length := by have := hg'.1; have := hg'.2; omega
      exact loopV_total (ih hcf.2) _ fewest lf 0 d' ks fk' hg' (by omega)
        (fun d'' fk'' hg'' hle' hfk'' => hks d'' fk'' hg'' (Nat.le_trans hle hle') hfk'') hfk'
  | branch l r ihl ihr =>
    intro d ks fk hg hks hfk
    simp only [m]
    exact ihl hcf.1 d ks _ hg hks (ihr hcf.2 d ks fk hg hks hfk)
  | dec x body ih =>
    intro d ks fk hg hks hfk
    simp only [m]
    refine ih hcf d _ fk hg ?_ hfk
    intro d' fk' hg' hle hfk'
    exact hks (bindD d' x _) fk' hg' hle hfk'
  | sub x body _ => exact absurd hcf (by simp [CallFree])
  | inl neg items =>
    intro d ks fk hg hks hfk
    cases neg with
    | false => simp only [m]; exact inAlts_total items d ks fk hg hks hfk
    | true =>
      simp only [m]
      split
      · exact hfk
      · split
        · exact hfk
        · have := good_consume hg (listMaxSize items).toNat
          exact hks _ fk this.1 this.2 hfk

end

/-- every attempt answers, and a match it reports lies within the text and starts at `pos` -/
theorem attempt_total (text : Bytes) (lf : Nat) (hlf : text.length < lf) (e : Expr) (hcf : CallFree e)
    (pos line col : Nat) (hpos : pos ≤ text.length) :
    ∃ s, attempt text lf e pos line col = some s ∧ ∀ d, s = .matched d → Good text pos d := by
  unfold attempt
  refine m_total (p0 := pos) (Q := fun r => ∃ s, r = some s ∧ ∀ d, s = .matched d → Good text pos d) lf hlf e hcf
    ⟨pos, line, col, [], .nil⟩ _ _ ⟨hpos, by simp⟩ ?_ ?_
  · intro d' fk' hg' _ _
    exact ⟨.matched d', rfl, fun d hd => by cases hd; exact hg'⟩
  · exact ⟨.fail, rfl, fun d hd => by cases hd⟩

theorem scanAll_total (text : Bytes) (lf : Nat) (hlf : text.length < lf) (e : Expr) (hcf : CallFree e) :
    ∀ f acc pos line col, pos < text.length → text.length - pos < f → scanAll text lf e f acc pos line col ≠ none := by
  intro f
  induction f with
  | zero => intro acc pos line col _ h; omega
  | succ f ih =>
    intro acc pos line col hpos hf
    unfold scanAll scanAllWith
    obtain ⟨s, hs, hgood⟩ := attempt_total text lf hlf e hcf pos line col (Nat.le_of_lt hpos)
    have hstep : scanAllWith.step1 text (attempt text lf e) f acc pos line col ≠ none := by
      unfold scanAllWith.step1
      split
      · split
        · simp
        · split
          · exact ih _ _ _ _ (by omega) (by omega)
          · exact ih _ _ _ _ (by omega) (by omega)
      · simp
    rw [hs]
    cases s with
    | fail => exact hstep
    | matched d =>
      have hg := hgood d rfl
      by_cases hne : (d.cur.length != 0) = true
      · have hne' : d.cur.length ≠ 0 := by simpa using hne
        by_cases hend : d.pos ≥ text.length
        · simp [hne, hend]
        · simp only [hne, hend, if_true, if_false]
          exact ih _ _ _ _ (by omega) (by have := hg.2; omega)
      · simp only [hne]
        exact hstep

theorem findAll_total (text : Bytes) (e : Expr) (hcf : CallFree e) : findAll text e ≠ none := by
  unfold findAll
  split
  · simp
  · exact scanAll_total text _ (by omega) e hcf _ _ _ _ _ (by omega) (by omega)

end Vore
