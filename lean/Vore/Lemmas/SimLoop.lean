import Vore.Lemmas.SimBase
/-! the loop head (`matchStartLoop`) on unnamed loops, characterised on `mkCore` states -/
namespace Vore
open Vore.Spec

/-- the state of a loop entered for the first time -/
def freshLoop (id : Nat) (C : List CallSt) (d : Data) : LoopSt :=
  { id := id, callLevel := C.length, iter := 0, name := "", startLen := d.cur.length,
    vars := .cons "0" (.map .nil) .nil }

/-- the state of a loop re-entered after an iteration that made progress -/
def nextLoop (top : LoopSt) (d : Data) : LoopSt :=
  { top with iter := top.iter + 1, startLen := d.cur.length,
             vars := top.vars.put (toString (top.iter + 1)) (.map .nil) }

/-- what the head does once the loop state `top` (unnamed) is on the stack -/
def loopDecide (pc ex : Nat) (mx : Int) (fewest : Bool) (d : Data) (top : LoopSt) (rest : List LoopSt)
    (V : List (String × Nat)) (C : List CallSt) (bt : List Core) : Step :=
  if mx == -1 || (top.iter : Int) ≤ mx then
    if fewest then .cont ⟨mkCore (ex + 1) d rest V C, mkCore (pc + 1) d (top :: rest) V C :: bt⟩
    else .cont ⟨mkCore (pc + 1) d (top :: rest) V C, mkCore (ex + 1) d rest V C :: bt⟩
  else VMState.backtrack ⟨mkCore pc d (top :: rest) V C, bt⟩

theorem popLoop_unnamed (c : Core) (top : LoopSt) (rest : List LoopSt) (h : top.name = "") :
    c.popLoop top rest = { c with loops := rest } := by
  simp [Core.popLoop, h]

theorem startLoop_decide (pc ex id : Nat) (mx : Int) (fewest : Bool) (d : Data) (top : LoopSt)
    (rest : List LoopSt) (V : List (String × Nat)) (C : List CallSt) (bt : List Core) (hname : top.name = "")
    (Lx : List LoopSt) :
    (match (some (top, rest) : Option (LoopSt × List LoopSt)) with
      | none => VMState.backtrack ⟨mkCore pc d Lx V C, bt⟩
      | some (top, rest) =>
        let c := { mkCore pc d Lx V C with loops := top :: rest }
        let k := top.iter
        if k < 0 then Step.cont { (VMState.mk (mkCore pc d Lx V C) bt) with core := { c with pc := c.pc + 1 } }
        else if mx == -1 || (k : Int) ≤ mx then
          if fewest then
            let body := { c with pc := c.pc + 1 }
            .cont ⟨{ (body.popLoop top rest) with pc := ex + 1 }, body :: bt⟩
          else
            let popped := c.popLoop top rest
            let exc := { popped with pc := ex + 1 }
            .cont ⟨{ popped with loops := top :: popped.loops, pc := c.pc + 1 }, exc :: bt⟩
        else (VMState.mk c bt).backtrack) = loopDecide pc ex mx fewest d top rest V C bt := by
  simp only [Nat.not_lt_zero, if_false, popLoop_unnamed _ _ _ hname, loopDecide]
  rfl

/-- first entry: the stack top (if any) belongs to another loop -/
theorem startLoop_fresh (pc ex id : Nat) (mx : Int) (fewest : Bool) (d : Data) (L : List LoopSt)
    (V : List (String × Nat)) (C : List CallSt) (bt : List Core) (hL : ∀ l ∈ L, l.id ≠ id) :
    VMState.startLoop ⟨mkCore pc d L V C, bt⟩ id 0 mx fewest ex "" =
      loopDecide pc ex mx fewest d (freshLoop id C d) L V C bt := by
  unfold VMState.startLoop
  simp only
  cases L with
  | nil =>
    simp only [mkCore]
    exact startLoop_decide pc ex id mx fewest d (freshLoop id C d) [] V C bt rfl []
  | cons top rest =>
    have hne : top.id ≠ id := hL top (by simp)
    have hb : (top.id != id || top.callLevel != C.length) = true := by simp [hne]
    simp only [mkCore, hb, if_true]
    exact startLoop_decide pc ex id mx fewest d (freshLoop id C d) (top :: rest) V C bt rfl (top :: rest)

/-- re-entry after an iteration -/
theorem startLoop_reenter (pc ex id : Nat) (mx : Int) (fewest : Bool) (d : Data) (top : LoopSt) (L : List LoopSt)
    (V : List (String × Nat)) (C : List CallSt) (bt : List Core) (hid : top.id = id) (hcl : top.callLevel = C.length)
    (hname : top.name = "") :
    VMState.startLoop ⟨mkCore pc d (top :: L) V C, bt⟩ id 0 mx fewest ex "" =
      if top.startLen == d.cur.length then VMState.backtrack ⟨mkCore pc d (top :: L) V C, bt⟩
      else loopDecide pc ex mx fewest d (nextLoop top d) L V C bt := by
  unfold VMState.startLoop
  have hb : (top.id != id || top.callLevel != C.length) = false := by simp [hid, hcl]
  by_cases hz : (top.startLen == d.cur.length) = true
  · simp only [mkCore, hb, Bool.false_eq_true, if_false, hz, if_true]
  · simp only [mkCore, hb, Bool.false_eq_true, if_false, hz]
    exact startLoop_decide pc ex id mx fewest d (nextLoop top d) L V C bt hname (top :: L)

end Vore
