import Vore.Spec.ParserGrammar
/-!
# Vore.Lemmas.ParserBasics — the small program logic used to relate `Model.Parser` and `Spec.Grammar`

* `EndsEof ts`: the invariant `getTokens` establishes (the list is `pre ++ [eof]`, no EOF inside).
* the two lemmas about `consumeIgnoreableTokens` (`skip_spec`): inside an `EndsEof` list it never
  runs off the end, lands on a significant token, and does not change the stripped suffix.
* `Sim ts lo r g`: what a result of the index parser means at grammar level
  (`ok v k` ↔ `ok v (strip (ts.drop k))`, `lo ≤ k < |ts|`; `error` ↔ `err`; `panic`/`fuel` ↔ nothing)
  and its composition rules (`sim_bind`, `sim_skipTok`, `sim_tok`).
-/
namespace Vore.Parser
open Vore Vore.Grammar

def EndsEof (ts : List Token) : Prop :=
  ∃ pre e, ts = pre ++ [e] ∧ e.kind = .eof ∧ ∀ t ∈ pre, t.kind ≠ .eof

theorem EndsEof.pos {ts : List Token} (h : EndsEof ts) : 0 < ts.length := by
  obtain ⟨pre, e, rfl, _, _⟩ := h; simp

theorem lt_of_tk {ts : List Token} {i : Nat} {t : Token} (h : tk ts i = some t) : i < ts.length := by
  unfold tk at h
  exact (List.getElem?_eq_some_iff.mp h).1

theorem tk_of_lt {ts : List Token} {i : Nat} (h : i < ts.length) : ∃ t, tk ts i = some t := by
  unfold tk; exact ⟨ts[i], by simp [h]⟩

/-- a token that is not EOF is not the last one: this is what makes `tokens[i+1]` safe -/
theorem EndsEof.succ_lt {ts : List Token} {i : Nat} {t : Token} (h : EndsEof ts)
    (hi : tk ts i = some t) (ht : t.kind ≠ .eof) : i + 1 < ts.length := by
  obtain ⟨pre, e, rfl, he, _⟩ := h
  have hlt := lt_of_tk hi
  unfold tk at hi
  simp at hlt ⊢
  by_cases hip : i < pre.length
  · omega
  · have : i = pre.length := by omega
    subst this
    simp at hi
    subst hi
    exact absurd he ht

/-- EOF is the last token -/
theorem EndsEof.eof_last {ts : List Token} {i : Nat} {t : Token} (h : EndsEof ts)
    (hi : tk ts i = some t) (ht : t.kind = .eof) : i + 1 = ts.length := by
  obtain ⟨pre, e, rfl, _, hpre⟩ := h
  have hlt := lt_of_tk hi
  unfold tk at hi
  simp at hlt ⊢
  by_cases hip : i < pre.length
  · rw [List.getElem?_append_left hip] at hi
    have hmem : t ∈ pre := List.mem_of_getElem? hi
    exact absurd ht (hpre t hmem)
  · omega

theorem EndsEof.last_eof {ts : List Token} {i : Nat} (h : EndsEof ts) (hi : i + 1 = ts.length) :
    ∃ t, tk ts i = some t ∧ t.kind = .eof := by
  obtain ⟨pre, e, rfl, he, _⟩ := h
  simp at hi
  subst hi
  exact ⟨e, by simp [tk], he⟩

theorem ignorable_ne_eof {k : Tok} (h : ignorable k = true) : k ≠ .eof := by
  intro hk; subst hk; simp [ignorable] at h

@[simp] theorem sig_kind (t : Token) : (Token.sig t).kind = t.kind := rfl

theorem sig_lex {t : Token} (h : carriesLexeme t.kind = true) : (Token.sig t).lex = t.lexeme := by
  simp [Token.sig, h]

theorem drop_cons_of_tk {ts : List Token} {i : Nat} {t : Token} (h : tk ts i = some t) :
    ts.drop i = t :: ts.drop (i + 1) := by
  have hlt := lt_of_tk h
  unfold tk at h
  have ht : ts[i] = t := (List.getElem?_eq_some_iff.mp h).2
  rw [List.drop_eq_getElem_cons hlt, ht]

theorem strip_drop_cons {ts : List Token} {i : Nat} {t : Token} (h : tk ts i = some t)
    (hs : ignorable t.kind = false) : strip (ts.drop i) = Token.sig t :: strip (ts.drop (i + 1)) := by
  rw [drop_cons_of_tk h]; simp [strip, List.filter, hs]

theorem strip_drop_ign {ts : List Token} {i : Nat} {t : Token} (h : tk ts i = some t)
    (hs : ignorable t.kind = true) : strip (ts.drop i) = strip (ts.drop (i + 1)) := by
  rw [drop_cons_of_tk h]; simp [strip, List.filter, hs]

/-- `consumeIgnoreableTokens` at a significant token stays there -/
theorem skip_sig {ts : List Token} {i : Nat} {t : Token} (h : tk ts i = some t)
    (hs : ignorable t.kind = false) : skip ts i = some i := by
  unfold skip; rw [drop_cons_of_tk h]; simp [skipL, hs]

/-- the two lemmas about `consumeIgnoreableTokens` in one statement -/
theorem skip_spec {ts : List Token} (h : EndsEof ts) : ∀ (n i : Nat), ts.length - i ≤ n → i < ts.length →
    ∃ j t, skip ts i = some j ∧ tk ts j = some t ∧ ignorable t.kind = false ∧ i ≤ j ∧ j < ts.length ∧
      strip (ts.drop i) = strip (ts.drop j) := by
  intro n
  induction n with
  | zero => intro i hn hi; omega
  | succ n ih =>
    intro i hn hi
    obtain ⟨t, ht⟩ := tk_of_lt hi
    by_cases hs : ignorable t.kind = true
    · have hlt := h.succ_lt ht (ignorable_ne_eof hs)
      obtain ⟨j, t', hj, htj, hsj, hle, hjl, hst⟩ := ih (i + 1) (by omega) hlt
      refine ⟨j, t', ?_, htj, hsj, by omega, hjl, ?_⟩
      · unfold skip at hj ⊢
        rw [drop_cons_of_tk ht]; simp [skipL, hs]; exact hj
      · rw [strip_drop_ign ht hs]; exact hst
    · have hs' : ignorable t.kind = false := by simpa using hs
      exact ⟨i, t, skip_sig ht hs', ht, hs', Nat.le_refl _, hi, rfl⟩

/-! ## the simulation relation -/

def Sim {α : Type} (ts : List Token) (lo : Nat) : Res α → GR α → Prop
  | .ok v k, .ok v' r => v = v' ∧ r = strip (ts.drop k) ∧ lo ≤ k ∧ k < ts.length
  | .error _ _, .err => True
  | _, _ => False

theorem sim_ok {α : Type} {ts : List Token} {lo k : Nat} {v : α} {r : List STok}
    (hr : r = strip (ts.drop k)) (h1 : lo ≤ k) (h2 : k < ts.length) :
    Sim ts lo (Res.ok v k) (GR.ok v r) := ⟨rfl, hr, h1, h2⟩

theorem sim_err {α : Type} {ts : List Token} {lo : Nat} {m : String} {a : Nat} :
    Sim (α := α) ts lo (Res.error m a) GR.err := trivial

theorem sim_mono {α : Type} {ts : List Token} {lo lo' : Nat} {r : Res α} {g : GR α}
    (h : Sim ts lo r g) (hle : lo' ≤ lo) : Sim ts lo' r g := by
  cases r <;> cases g <;> simp_all [Sim]
  omega

theorem sim_bind {α β : Type} {ts : List Token} {lo lo' : Nat} {r : Res α} {g : GR α}
    {K : α → Nat → Res β} {K' : α → List STok → GR β}
    (h : Sim ts lo r g)
    (hk : ∀ v k, lo ≤ k → k < ts.length → Sim ts lo' (K v k) (K' v (strip (ts.drop k)))) :
    Sim ts lo' (r.bind K) (g.bind K') := by
  cases r <;> cases g <;> simp_all [Sim, Res.bind, GR.bind]

theorem sim_skipTok {β : Type} {ts : List Token} (h : EndsEof ts) {lo i : Nat} (hi : i < ts.length)
    {K : Nat → Token → Res β} {K' : STok → List STok → GR β}
    (hk : ∀ j t, tk ts j = some t → ignorable t.kind = false → i ≤ j → j < ts.length →
      strip (ts.drop i) = strip (ts.drop j) →
      Sim ts lo (K j t) (K' (Token.sig t) (strip (ts.drop (j + 1))))) :
    Sim ts lo (withSkipTok ts i K) (next (strip (ts.drop i)) K') := by
  obtain ⟨j, t, hj, htj, hsj, hle, hjl, hst⟩ := skip_spec h _ i (Nat.le_refl _) hi
  have := hk j t htj hsj hle hjl hst
  rw [hst, strip_drop_cons htj hsj]
  simpa [withSkipTok, hj, htj, next] using this

/-- `withSkipTok` when the grammar side does not look at the token itself -/
theorem sim_skip {β : Type} {ts : List Token} (h : EndsEof ts) {lo i : Nat} (hi : i < ts.length)
    {K : Nat → Token → Res β} {G : GR β}
    (hk : ∀ j t, tk ts j = some t → ignorable t.kind = false → i ≤ j → j < ts.length →
      strip (ts.drop i) = strip (ts.drop j) → Sim ts lo (K j t) G) :
    Sim ts lo (withSkipTok ts i K) G := by
  obtain ⟨j, t, hj, htj, hsj, hle, hjl, hst⟩ := skip_spec h _ i (Nat.le_refl _) hi
  have := hk j t htj hsj hle hjl hst
  simpa [withSkipTok, hj, htj] using this

theorem sim_tok {β : Type} {ts : List Token} {lo i : Nat} {t : Token}
    (htk : tk ts i = some t) (hs : ignorable t.kind = false)
    {K : Token → Res β} {K' : STok → List STok → GR β}
    (hk : Sim ts lo (K t) (K' (Token.sig t) (strip (ts.drop (i + 1))))) :
    Sim ts lo (withTok ts i K) (next (strip (ts.drop i)) K') := by
  rw [strip_drop_cons htk hs]
  simpa [withTok, htk, next] using hk


theorem next_head {β : Type} {ts : List Token} {i : Nat} {t : Token}
    (htk : tk ts i = some t) (hs : ignorable t.kind = false) (K' : STok → List STok → GR β) :
    next (strip (ts.drop i)) K' = K' (Token.sig t) (strip (ts.drop (i + 1))) := by
  rw [strip_drop_cons htk hs]; rfl

/-- index `k` holds a significant token -/
def SigAt (ts : List Token) (k : Nat) : Prop := ∃ t, tk ts k = some t ∧ ignorable t.kind = false

theorem skipL_lands : ∀ (r : List Token) (i j : Nat), skipL r i = some j →
    i ≤ j ∧ ∃ t, r[j - i]? = some t ∧ ignorable t.kind = false := by
  intro r
  induction r with
  | nil => intro i j h; simp [skipL] at h
  | cons t rest ih =>
    intro i j h
    unfold skipL at h
    by_cases hi : ignorable t.kind = true
    · simp only [hi, if_true] at h
      obtain ⟨h1, t', h2, h3⟩ := ih (i + 1) j h
      refine ⟨by omega, t', ?_, h3⟩
      have : j - i = (j - (i + 1)) + 1 := by omega
      rw [this]; simpa using h2
    · simp only [hi, Bool.false_eq_true, if_false] at h
      have : j = i := by simpa using h.symm
      subst this
      exact ⟨Nat.le_refl _, t, by simp, by simpa using hi⟩

/-- wherever `consumeIgnoreableTokens` returns, there is a significant token -/
theorem skip_lands {ts : List Token} {i j : Nat} (h : skip ts i = some j) : i ≤ j ∧ SigAt ts j := by
  unfold skip at h
  obtain ⟨h1, t, h2, h3⟩ := skipL_lands _ _ _ h
  refine ⟨h1, t, ?_, h3⟩
  unfold tk; rw [List.getElem?_drop] at h2; rw [← h2]; congr 1; omega

/-- `sim_bind` when the first result is known to end at a significant token -/
theorem sim_bindS {α β : Type} {ts : List Token} {lo lo' : Nat} {r : Res α} {g : GR α}
    {K : α → Nat → Res β} {K' : α → List STok → GR β}
    (h : Sim ts lo r g) (hsig : ∀ v k, r = .ok v k → SigAt ts k)
    (hk : ∀ v k, lo ≤ k → k < ts.length → SigAt ts k → Sim ts lo' (K v k) (K' v (strip (ts.drop k)))) :
    Sim ts lo' (r.bind K) (g.bind K') := by
  cases r with
  | ok v k =>
    have hs := hsig v k rfl
    cases g <;> simp_all [Sim, Res.bind, GR.bind]
  | error m a => cases g <;> simp_all [Sim, Res.bind, GR.bind]
  | panic => cases g <;> simp_all [Sim]
  | fuel => cases g <;> simp_all [Sim]

end Vore.Parser
