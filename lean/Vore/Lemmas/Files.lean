import Vore.Model.Files
/-!
# Vore.Lemmas.Files — the window invariant of `BufferedFile` and what `Seek`/`Read` do under it
-/
namespace Vore.Files

/-- The window invariant.  `buffer[0, max-min) = file[min, max)`, the window lies inside the
file, is at most one buffer long, and the cursor is never left of it. -/
structure Inv (B : Nat) (file : Bytes) (v : BufferedFile) : Prop where
  file_eq : v.file = file
  size_eq : v.fileSize = file.length
  bsize : v.bufferSize = B
  blen : v.buffer.length = B
  bpos : 1 ≤ B
  min_nonneg : 0 ≤ v.minOffset
  min_le_cur : v.minOffset ≤ v.currentOffset
  min_le_max : v.minOffset ≤ v.maxOffset
  max_le_size : v.maxOffset ≤ file.length
  win_le : v.maxOffset - v.minOffset ≤ B
  content : ∀ i : Nat, (i : Int) < v.maxOffset - v.minOffset →
    v.buffer[i]? = file[v.minOffset.toNat + i]?

theorem overwrite_length (buf got : Bytes) (h : got.length ≤ buf.length) :
    (overwrite buf got).length = buf.length := by
  simp [overwrite]; omega

theorem overwrite_getElem? (buf got : Bytes) (i : Nat) (h : i < got.length) :
    (overwrite buf got)[i]? = got[i]? := by
  simp [overwrite, List.getElem?_append_left h]

/-- `NewBufferedFile` establishes the invariant — for every file, the empty one included -/
theorem new_inv (B : Nat) (hB : 1 ≤ B) (file : Bytes) :
    Inv B file (NewBufferedFileB B file file.length) := by
  have hl : (List.take B file).length ≤ B := by simp [List.length_take]; omega
  refine ⟨rfl, rfl, rfl, ?_, hB, ?_, ?_, ?_, ?_, ?_, ?_⟩
  · simp [NewBufferedFileB, osReadFirst]
    rw [overwrite_length] <;> simp [List.length_take]; omega
  · simp [NewBufferedFileB]
  · simp [NewBufferedFileB]
  · simp [NewBufferedFileB, osReadFirst]
  · simp [NewBufferedFileB, osReadFirst, List.length_take]; omega
  · simp [NewBufferedFileB, osReadFirst, List.length_take]; omega
  · intro i hi
    simp only [NewBufferedFileB, osReadFirst, List.length_take] at hi ⊢
    have hi' : i < min B file.length := by omega
    rw [overwrite_getElem? _ _ _ (by simp [List.length_take]; omega)]
    simp [List.getElem?_take]; omega

/-- the re-centring arithmetic: the new window start is inside the file, not right of the
target, and the target is less than one buffer away from it (when the target is in the file) -/
theorem newStart_spec (v : BufferedFile) (t : Int) (hB : 1 ≤ v.bufferSize) (hs : 0 ≤ v.fileSize)
    (ht : 0 ≤ t) :
    0 ≤ v.newStart t ∧ v.newStart t ≤ t ∧ v.newStart t ≤ v.fileSize ∧
    (t < v.fileSize → t < v.newStart t + v.bufferSize) := by
  simp only [BufferedFile.newStart]
  omega

/-- the window after a refill at `s` -/
theorem refill_inv {B : Nat} {file : Bytes} {v : BufferedFile} (h : Inv B file v) (s t : Int)
    (hs0 : 0 ≤ s) (hst : s ≤ t) (hsz : s ≤ file.length) :
    Inv B file { v with buffer := overwrite v.buffer ((file.drop s.toNat).take B),
                        minOffset := s,
                        maxOffset := s + ((file.drop s.toNat).take B).length,
                        currentOffset := t } := by
  have hgl : ((file.drop s.toNat).take B).length = min B (file.length - s.toNat) := by
    simp [List.length_take, List.length_drop]
  refine ⟨h.file_eq, h.size_eq, h.bsize, ?_, h.bpos, hs0, hst, ?_, ?_, ?_, ?_⟩
  · show (overwrite v.buffer _).length = B
    rw [overwrite_length, h.blen]; rw [hgl, h.blen]; omega
  · show s ≤ s + _; omega
  · show s + _ ≤ _; rw [hgl]; omega
  · show s + _ - s ≤ _; rw [hgl]; omega
  · intro i hi
    have hi' : i < ((file.drop s.toNat).take B).length := by
      have : (i : Int) < s + ((file.drop s.toNat).take B).length - s := hi
      omega
    show (overwrite v.buffer _)[i]? = file[s.toNat + i]?
    rw [overwrite_getElem? _ _ _ hi', List.getElem?_take, List.getElem?_drop]
    rw [hgl] at hi'
    simp; omega

/-- `Seek` under the invariant: a negative target is refused and nothing changes; any other
target is accepted, the invariant is kept, and the target is inside the window unless it is at
or beyond the end of the file. -/
theorem seek_spec {B : Nat} {file : Bytes} {v : BufferedFile} (h : Inv B file v) (off : Int)
    (w : Whence) (hw : w ≠ .end_) (t : Int)
    (ht : t = if w = .start then off else v.currentOffset + off) :
    (t < 0 → v.Seek off w = (v, .error .negativeSeek)) ∧
    (0 ≤ t → ∃ v', v.Seek off w = (v', .ok t) ∧ Inv B file v' ∧ v'.currentOffset = t ∧
      (t < file.length → t < v'.maxOffset)) := by
  have hsk : v.Seek off w =
      (if t < 0 then (v, .error .negativeSeek)
       else if t < v.minOffset ∨ t ≥ v.maxOffset then
         match osReadAt v.file v.buffer.length (v.newStart t) with
         | .error e => (v, .error e)
         | .ok (got, _eof) =>
           ({ v with buffer := overwrite v.buffer got, minOffset := v.newStart t,
                     maxOffset := v.newStart t + got.length, currentOffset := t }, .ok t)
       else ({ v with currentOffset := t }, .ok t)) := by
    subst ht
    cases w <;> first | exact absurd rfl hw | rfl
  constructor
  · intro ht; rw [hsk, if_pos ht]
  · intro ht
    rw [hsk, if_neg (by omega)]
    by_cases hwin : t < v.minOffset ∨ t ≥ v.maxOffset
    · rw [if_pos hwin]
      have hns := newStart_spec v t (by rw [h.bsize]; have := h.bpos; omega)
        (by rw [h.size_eq]; omega) ht
      rw [h.size_eq, h.bsize] at hns
      obtain ⟨h0, h1, h2, h3⟩ := hns
      have hrd : osReadAt v.file v.buffer.length (v.newStart t) =
          .ok ((file.drop (v.newStart t).toNat).take B,
               decide (((file.drop (v.newStart t).toNat).take B).length < B)) := by
        simp [osReadAt, h.file_eq, h.blen]; omega
      rw [hrd]
      refine ⟨_, rfl, refill_inv h _ t h0 h1 h2, rfl, ?_⟩
      intro hlt
      show t < v.newStart t + (((file.drop (v.newStart t).toNat).take B).length : Int)
      have := h3 hlt
      simp [List.length_take, List.length_drop]; omega
    · rw [if_neg hwin]
      refine ⟨_, rfl, ⟨h.file_eq, h.size_eq, h.bsize, h.blen, h.bpos, h.min_nonneg, ?_, h.min_le_max,
        h.max_le_size, h.win_le, h.content⟩, rfl, ?_⟩
      · show v.minOffset ≤ t; omega
      · intro _; show t < v.maxOffset; omega

/-- moving the cursor to the right keeps the invariant -/
theorem Inv.advance {B : Nat} {file : Bytes} {v : BufferedFile} (h : Inv B file v) (c : Int)
    (hc : v.currentOffset ≤ c) : Inv B file { v with currentOffset := c } :=
  ⟨h.file_eq, h.size_eq, h.bsize, h.blen, h.bpos, h.min_nonneg, by have := h.min_le_cur; show v.minOffset ≤ c; omega,
    h.min_le_max, h.max_le_size, h.win_le, h.content⟩

/-- the inner copy loop never indexes outside the buffer and copies exactly the bytes of the
file between the cursor and the end of the window (at most `k` of them) -/
theorem copyLoop_spec {B : Nat} {file : Bytes} : ∀ (k : Nat) (v : BufferedFile), Inv B file v →
    ∃ m : Nat, m = min k (v.maxOffset - v.currentOffset).toNat ∧
      v.copyLoop k = .ok ({ v with currentOffset := v.currentOffset + m },
                          (file.drop v.currentOffset.toNat).take m) := by
  intro k
  induction k with
  | zero => intro v _; exact ⟨0, by omega, by cases v; simp [BufferedFile.copyLoop]⟩
  | succ k ih =>
    intro v h
    by_cases hlt : v.currentOffset < v.maxOffset
    · have hmc := h.min_le_cur
      have hmn := h.min_nonneg
      have hms := h.max_le_size
      have hidx : ¬ (v.currentOffset - v.minOffset < 0) := by omega
      have hcl : v.currentOffset.toNat < file.length := by omega
      have hb : v.buffer[(v.currentOffset - v.minOffset).toNat]? = some file[v.currentOffset.toNat] := by
        rw [h.content _ (by omega)]
        have : v.minOffset.toNat + (v.currentOffset - v.minOffset).toNat = v.currentOffset.toNat := by omega
        rw [this, List.getElem?_eq_getElem hcl]
      obtain ⟨m, hm, hcopy⟩ := ih { v with currentOffset := v.currentOffset + 1 }
        (h.advance _ (by omega))
      refine ⟨m + 1, ?_, ?_⟩
      · simp only at hm; omega
      · simp only [BufferedFile.copyLoop, if_pos hlt, if_neg hidx, hb, hcopy]
        have hd : (v.currentOffset + 1).toNat = v.currentOffset.toNat + 1 := by omega
        simp only [hd]
        rw [List.drop_eq_getElem_cons hcl, List.take_succ_cons]
        congr 3
        push_cast; omega
    · refine ⟨0, by omega, ?_⟩
      cases v; simp [BufferedFile.copyLoop] at hlt ⊢; omega

/-- more fuel never changes a finished `Read` -/
theorem readLoop_mono (n : Nat) : ∀ (fuel : Nat) (v : BufferedFile) (out : Bytes) (k : Nat),
    v.readLoop n fuel out ≠ .spin → v.readLoop n (fuel + k) out = v.readLoop n fuel out := by
  intro fuel
  induction fuel with
  | zero => intro v out k h; simp [BufferedFile.readLoop] at h
  | succ f ih =>
    intro v out k h
    rw [show f + 1 + k = (f + k) + 1 by omega]
    simp only [BufferedFile.readLoop] at h ⊢
    cases hc : v.copyLoop (n - out.length) with
    | error i => rfl
    | ok p =>
      obtain ⟨v1, bs⟩ := p
      simp only [hc] at h ⊢
      by_cases h1 : (out ++ bs).length = n
      · simp only [if_pos h1]
      · by_cases h2 : v1.currentOffset ≥ v1.fileSize
        · simp only [if_neg h1, if_pos h2]
        · cases hs : v1.Seek 0 .current with
          | mk v2 r =>
            cases r with
            | error e => simp only [if_neg h1, if_neg h2]
            | ok x =>
              simp only [if_neg h1, if_neg h2, hs] at h ⊢
              exact ih _ _ _ h

/-- The refill loop of `Read` under the invariant.  With `n - |out| + 1` iterations of fuel
(one less when the cursor is inside the window) it returns, having appended to `out` exactly
the bytes `file[cur, cur + (n - |out|))` that exist; it reports `io.EOF` iff it returns nothing
at all; it never indexes outside the buffer; the invariant is kept. -/
theorem readLoop_spec {B : Nat} {file : Bytes} (n : Nat) :
    ∀ (fuel : Nat) (v : BufferedFile) (out : Bytes), Inv B file v → out.length ≤ n →
      (n - out.length + 1 ≤ fuel ∨
        (v.currentOffset < v.maxOffset ∧ n - out.length ≤ fuel ∧ 1 ≤ fuel)) →
      ∃ v', v.readLoop n fuel out =
          .ret v' (out ++ (file.drop v.currentOffset.toNat).take (n - out.length))
            (if (out ++ (file.drop v.currentOffset.toNat).take (n - out.length)).length = n then none
             else if (out ++ (file.drop v.currentOffset.toNat).take (n - out.length)).length = 0
               then some .eof else none) ∧
        Inv B file v' ∧
        v'.currentOffset = v.currentOffset +
          ((file.drop v.currentOffset.toNat).take (n - out.length)).length := by
  intro fuel
  induction fuel with
  | zero => intro v out _ _ hf; omega
  | succ f ih =>
    intro v out h hout hf
    obtain ⟨m, hm, hcopy⟩ := copyLoop_spec (n - out.length) v h
    have hmn := h.min_nonneg
    have hmc := h.min_le_cur
    have hms := h.max_le_size
    have hdl : (file.drop v.currentOffset.toNat).length = file.length - v.currentOffset.toNat := by
      simp [List.length_drop]
    have htm : ((file.drop v.currentOffset.toNat).take m).length = m := by
      rw [List.length_take, hdl]; omega
    simp only [BufferedFile.readLoop, hcopy]
    by_cases hdone : (out ++ (file.drop v.currentOffset.toNat).take m).length = n
    · -- everything asked for has been copied
      have hmeq : m = n - out.length := by
        rw [List.length_append, htm] at hdone; omega
      rw [if_pos hdone]
      refine ⟨_, ?_, h.advance (v.currentOffset + (m : Int)) (by omega), ?_⟩
      · rw [← hmeq, if_pos hdone]
      · show v.currentOffset + (m : Int) = _
        rw [← hmeq, htm]
    · rw [if_neg hdone]
      have hlt : m < n - out.length := by
        rw [List.length_append, htm] at hdone; omega
      by_cases heof : v.currentOffset + (m : Int) ≥ v.fileSize
      · -- the window ended at the end of the file
        have heof' : v.currentOffset + (m : Int) ≥ file.length := by rw [← h.size_eq]; exact heof
        have htake : (file.drop v.currentOffset.toNat).take (n - out.length) =
            (file.drop v.currentOffset.toNat).take m := by
          rw [List.take_of_length_le (by rw [hdl]; omega), List.take_of_length_le (by rw [hdl]; omega)]
        rw [if_pos heof]
        refine ⟨_, ?_, h.advance (v.currentOffset + (m : Int)) (by omega), ?_⟩
        · rw [htake, if_neg hdone]
          split <;> rfl
        · show v.currentOffset + (m : Int) = _
          rw [htake, htm]
      · rw [if_neg heof]
        have heof' : v.currentOffset + (m : Int) < file.length := by rw [← h.size_eq]; omega
        have h1 := h.advance (v.currentOffset + (m : Int)) (by omega)
        obtain ⟨v2, hseek, hinv2, hcur2', hwin2⟩ :=
          (seek_spec h1 0 .current (by decide) (v.currentOffset + (m : Int)) (by simp)).2 (by omega)
        have hwin2' : v2.currentOffset < v2.maxOffset := by rw [hcur2']; exact hwin2 heof'
        rw [hseek]
        have hlen1 : (out ++ (file.drop v.currentOffset.toNat).take m).length = out.length + m := by
          rw [List.length_append, htm]
        have hfuel : n - (out ++ (file.drop v.currentOffset.toNat).take m).length + 1 ≤ f ∨
            (v2.currentOffset < v2.maxOffset ∧
              n - (out ++ (file.drop v.currentOffset.toNat).take m).length ≤ f ∧ 1 ≤ f) := by
          right
          refine ⟨hwin2', ?_, ?_⟩
          · rw [hlen1]; omega
          · omega
        have hle1 : (out ++ (file.drop v.currentOffset.toNat).take m).length ≤ n := by
          rw [hlen1]; omega
        obtain ⟨v', hres, hinv', hcur'⟩ :=
          ih v2 (out ++ (file.drop v.currentOffset.toNat).take m) hinv2 hle1 hfuel
        have hc2 : v2.currentOffset.toNat = v.currentOffset.toNat + m := by rw [hcur2']; omega
        have hsplit : (file.drop v.currentOffset.toNat).take (n - out.length) =
            (file.drop v.currentOffset.toNat).take m ++
              (file.drop (v.currentOffset.toNat + m)).take (n - (out.length + m)) := by
          rw [show n - out.length = m + (n - (out.length + m)) by omega, List.take_add, List.drop_drop]
          rw [show m + (n - (out.length + m)) - (out.length + m) = 0 by omega] at *
        refine ⟨v', ?_, hinv', ?_⟩
        · show BufferedFile.readLoop n f v2 _ = _
          rw [hres, hlen1, hc2, hsplit, List.append_assoc]
        · rw [hcur', hlen1, hc2, hcur2', hsplit, List.length_append, htm]
          push_cast; omega

/-- `Read` under the invariant: the bytes `file[cur, cur+n)` that exist, `io.EOF` iff none,
cursor advanced by what was returned, invariant kept; no panic, no spinning. -/
theorem read_spec {B : Nat} {file : Bytes} {v : BufferedFile} (h : Inv B file v) (n : Nat) :
    ∃ v', v.Read n =
        .ret v' ((file.drop v.currentOffset.toNat).take n)
          (if ((file.drop v.currentOffset.toNat).take n).length = n then none
           else if ((file.drop v.currentOffset.toNat).take n).length = 0 then some .eof else none) ∧
      Inv B file v' ∧
      v'.currentOffset = v.currentOffset + ((file.drop v.currentOffset.toNat).take n).length := by
  have := readLoop_spec (B := B) (file := file) n (n + 1) v [] h (by simp) (Or.inl (by simp))
  simpa [BufferedFile.Read, BufferedFile.ReadFuel] using this

/-- the refill loop terminates: `n + 1` iterations are enough, more change nothing -/
theorem read_terminates {B : Nat} {file : Bytes} {v : BufferedFile} (h : Inv B file v)
    (n fuel : Nat) (hf : n + 1 ≤ fuel) :
    v.ReadFuel fuel n = v.Read n ∧ v.Read n ≠ .spin := by
  obtain ⟨v', hr, _, _⟩ := read_spec h n
  have hns : v.Read n ≠ .spin := by rw [hr]; intro hc; cases hc
  refine ⟨?_, hns⟩
  obtain ⟨k, rfl⟩ : ∃ k, fuel = n + 1 + k := ⟨fuel - (n + 1), by omega⟩
  exact readLoop_mono n (n + 1) v [] k hns

/-! ## the `Reader` over a `BufferedFile` -/

/-- invariant of a `Reader` over a file -/
def RInv (B : Nat) (file : Bytes) (r : Reader BufferedFile) : Prop :=
  r.size = file.length ∧ Inv B file r.contents

theorem readerFromFile_inv (B : Nat) (hB : 1 ≤ B) (file : Bytes) :
    RInv B file (ReaderFromFileB B file) := ⟨rfl, new_inv B hB file⟩

theorem reader_seek_file {B : Nat} {file : Bytes} {r : Reader BufferedFile}
    (h : Inv B file r.contents) (off : Int) :
    (off < 0 → r.Seek off = .panic (.err .negativeSeek)) ∧
    (0 ≤ off → ∃ c, r.Seek off = .ok { r with contents := c, offset := off } [] ∧
      Inv B file c ∧ c.currentOffset = off) := by
  obtain ⟨hneg, hpos⟩ := seek_spec h off .start (by decide) off (by simp)
  constructor
  · intro ho
    simp [Reader.Seek, ReadSeeker.seek, hneg ho]
  · intro ho
    obtain ⟨c, hs, hi, hc, _⟩ := hpos ho
    exact ⟨c, by simp [Reader.Seek, ReadSeeker.seek, hs], hi, hc⟩

theorem reader_readContents_file {B : Nat} {file : Bytes} {r : Reader BufferedFile}
    (h : Inv B file r.contents) (length : Int) (hl : 0 < length) :
    ∃ c, Inv B file c ∧
      c.currentOffset = r.contents.currentOffset +
        ((file.drop r.contents.currentOffset.toNat).take length.toNat).length ∧
      r.readContents length =
        (if r.contents.currentOffset ≥ file.length then .panic (.err .eof)
         else if ((file.drop r.contents.currentOffset.toNat).take length.toNat).length ≠ length.toNat
           then .ok { r with contents := c } []
         else .ok { r with contents := c }
           ((file.drop r.contents.currentOffset.toNat).take length.toNat)) := by
  obtain ⟨c, hr, hi, hc⟩ := read_spec h length.toNat
  refine ⟨c, hi, hc, ?_⟩
  have hmn := h.min_nonneg
  have hmc := h.min_le_cur
  have hlen : ((file.drop r.contents.currentOffset.toNat).take length.toNat).length =
      min length.toNat (file.length - r.contents.currentOffset.toNat) := by
    simp [List.length_take, List.length_drop]
  simp only [Reader.readContents, ReadSeeker.read, hr]
  by_cases heof : r.contents.currentOffset ≥ file.length
  · rw [if_pos heof]
    have h0 : ((file.drop r.contents.currentOffset.toNat).take length.toNat).length = 0 := by
      rw [hlen]; omega
    rw [if_neg (by rw [h0]; omega), if_pos h0]
  · rw [if_neg heof]
    by_cases hfull : ((file.drop r.contents.currentOffset.toNat).take length.toNat).length = length.toNat
    · rw [if_pos hfull]
    · rw [if_neg hfull, if_neg (by rw [hlen]; omega)]

/-- **the reader law over a file**: `ReadAt(n, off)` on any reader state satisfying the
invariant returns `file[off, off+n)` when that lies inside the file and `n ≠ 0`, the empty
string otherwise — and keeps the invariant. -/
theorem readAt_file {B : Nat} {file : Bytes} {r : Reader BufferedFile} (h : RInv B file r)
    (n off : Nat) :
    ∃ r', r.ReadAt n off =
        .ok r' (if n = 0 ∨ off + n > file.length then [] else (file.drop off).take n) ∧
      RInv B file r' := by
  obtain ⟨hsz, hinv⟩ := h
  by_cases hchk : n = 0 ∨ off + n > file.length
  · refine ⟨r, ?_, hsz, hinv⟩
    rw [if_pos hchk]
    have : ((n : Int) = 0 ∨ (off : Int) + (n : Int) - 1 ≥ r.size) := by rw [hsz]; omega
    rw [Reader.ReadAt, if_pos this]
  · rw [if_neg hchk]
    have hc1 : ¬ ((n : Int) = 0 ∨ (off : Int) + (n : Int) - 1 ≥ r.size) := by rw [hsz]; omega
    obtain ⟨c, hs, hic, hcc⟩ := (reader_seek_file hinv (off : Int)).2 (by omega)
    obtain ⟨c', hic', _, hrc⟩ :=
      reader_readContents_file (r := { r with contents := c, offset := (off : Int) }) hic (n : Int) (by omega)
    simp only [hcc] at hrc
    have hlen : ((file.drop off).take n).length = n := by
      simp [List.length_take, List.length_drop]; omega
    refine ⟨{ r with contents := c', offset := (off : Int) }, ?_, hsz, hic'⟩
    simp only [Reader.ReadAt, if_neg hc1, hs]
    rw [if_neg (by omega), hrc]
    simp only [Int.toNat_natCast]
    rw [if_neg (by omega), if_neg (by rw [hlen]; simp)]

/-- the engine's `READ`/`READAT`: `Seek(off)` then `Read(n)` -/
theorem seekRead_file {B : Nat} {file : Bytes} {r : Reader BufferedFile} (h : RInv B file r)
    (n off : Nat) :
    ∃ r₁ r₂, r.Seek off = .ok r₁ [] ∧
      r₁.Read n = .ok r₂ (if n = 0 ∨ off + n > file.length then [] else (file.drop off).take n) ∧
      RInv B file r₁ ∧ RInv B file r₂ := by
  obtain ⟨hsz, hinv⟩ := h
  obtain ⟨c, hs, hic, hcc⟩ := (reader_seek_file hinv (off : Int)).2 (by omega)
  by_cases hchk : n = 0 ∨ off + n > file.length
  · refine ⟨_, { r with contents := c, offset := (off : Int) }, hs, ?_, ⟨hsz, hic⟩, ⟨hsz, hic⟩⟩
    rw [if_pos hchk]
    have : ((n : Int) = 0 ∨ (off : Int) + (n : Int) - 1 ≥ r.size) := by rw [hsz]; omega
    rw [Reader.Read, if_pos this]
  · rw [if_neg hchk]
    have hc1 : ¬ ((n : Int) = 0 ∨ (off : Int) + (n : Int) - 1 ≥ r.size) := by rw [hsz]; omega
    obtain ⟨c', hic', _, hrc⟩ :=
      reader_readContents_file (r := { r with contents := c, offset := (off : Int) }) hic (n : Int) (by omega)
    simp only [hcc] at hrc
    have hlen : ((file.drop off).take n).length = n := by
      simp [List.length_take, List.length_drop]; omega
    refine ⟨_, { r with contents := c', offset := (off : Int) }, hs, ?_, ⟨hsz, hic⟩, ⟨hsz, hic'⟩⟩
    simp only [Reader.Read, if_neg hc1]
    rw [if_neg (by omega), hrc]
    simp only [Int.toNat_natCast]
    rw [if_neg (by omega), if_neg (by rw [hlen]; simp)]

/-! ## refinement: the file reader simulates the in-memory reader -/

/-- the simulation relation: same `Reader` fields, the string is the file, the cursors agree,
and the window invariant holds -/
structure Sim (B : Nat) (file : Bytes) (rf : Reader BufferedFile) (rs : Reader StringRSC) : Prop where
  inv : Inv B file rf.contents
  sizef : rf.size = file.length
  sizes : rs.size = file.length
  str : rs.contents.s = file
  off : rs.offset = rf.offset
  cur : rs.contents.i = rf.contents.currentOffset

/-- same observable result, related successor states -/
def RRel (B : Nat) (file : Bytes) : RRes BufferedFile → RRes StringRSC → Prop
  | .ok rf a, .ok rs b => a = b ∧ Sim B file rf rs
  | .panic p, .panic q => p = q
  | _, _ => False

theorem sim_init (B : Nat) (hB : 1 ≤ B) (file : Bytes) :
    Sim B file (ReaderFromFileB B file) (ReaderFromString file) :=
  ⟨new_inv B hB file, rfl, rfl, rfl, rfl, rfl⟩

theorem seek_rel {B : Nat} {file : Bytes} {rf : Reader BufferedFile} {rs : Reader StringRSC}
    (h : Sim B file rf rs) (off : Int) : RRel B file (rf.Seek off) (rs.Seek off) := by
  obtain ⟨hneg, hpos⟩ := reader_seek_file h.inv off
  by_cases ho : off < 0
  · rw [hneg ho]
    simp [Reader.Seek, ReadSeeker.seek, StringRSC.Seek, ho, RRel]
  · obtain ⟨c, hs, hic, hcc⟩ := hpos (by omega)
    rw [hs]
    simp only [Reader.Seek, ReadSeeker.seek, StringRSC.Seek, if_neg ho, RRel]
    exact ⟨trivial, hic, h.sizef, h.sizes, h.str, rfl, hcc.symm⟩

theorem readContents_rel {B : Nat} {file : Bytes} {rf : Reader BufferedFile} {rs : Reader StringRSC}
    (h : Sim B file rf rs) (length : Int) (hl : 0 < length) :
    RRel B file (rf.readContents length) (rs.readContents length) := by
  obtain ⟨c, hic, hcc, hr⟩ := reader_readContents_file h.inv length hl
  rw [hr]
  have hi := h.cur
  have hstr := h.str
  simp only [Reader.readContents, ReadSeeker.read, StringRSC.Read, hi, hstr]
  by_cases heof : rf.contents.currentOffset ≥ file.length
  · simp only [if_pos heof, RRel]
  · simp only [if_neg heof]
    by_cases hfull : ((file.drop rf.contents.currentOffset.toNat).take length.toNat).length ≠ length.toNat
    · simp only [if_pos hfull, RRel]
      exact ⟨trivial, hic, h.sizef, h.sizes, rfl, h.off, hcc.symm⟩
    · simp only [if_neg hfull, RRel]
      exact ⟨trivial, hic, h.sizef, h.sizes, rfl, h.off, hcc.symm⟩

theorem step_rel {B : Nat} {file : Bytes} {rf : Reader BufferedFile} {rs : Reader StringRSC}
    (h : Sim B file rf rs) (op : ROp) : RRel B file (rf.step op) (rs.step op) := by
  cases op with
  | seek off => exact seek_rel h off
  | read len =>
    simp only [Reader.step, Reader.Read, h.off, h.sizef, h.sizes]
    by_cases h1 : len = 0 ∨ rf.offset + len - 1 ≥ (file.length : Int)
    · simp only [if_pos h1, RRel]; exact ⟨trivial, h⟩
    · simp only [if_neg h1]
      by_cases h2 : len < 0
      · simp only [if_pos h2, RRel]
      · simp only [if_neg h2]; exact readContents_rel h len (by omega)
  | readAt len off =>
    simp only [Reader.step, Reader.ReadAt, h.sizef, h.sizes]
    by_cases h1 : len = 0 ∨ off + len - 1 ≥ (file.length : Int)
    · simp only [if_pos h1, RRel]; exact ⟨trivial, h⟩
    · simp only [if_neg h1]
      by_cases h2 : len < 0
      · simp only [if_pos h2, RRel]
      · simp only [if_neg h2]
        have hs := seek_rel h off
        cases hf : rf.Seek off with
        | ok rf' a =>
          cases hg : rs.Seek off with
          | ok rs' b =>
            rw [hf, hg] at hs
            exact readContents_rel hs.2 len (by omega)
          | panic q => rw [hf, hg] at hs; exact hs.elim
          | spin => rw [hf, hg] at hs; exact hs.elim
        | panic p =>
          cases hg : rs.Seek off with
          | ok rs' b => rw [hf, hg] at hs; exact hs.elim
          | panic q => rw [hf, hg] at hs; exact hs
          | spin => rw [hf, hg] at hs; exact hs.elim
        | spin => rw [hf] at hs; cases hg : rs.Seek off <;> rw [hg] at hs <;> exact hs.elim

/-- every history: same observations, and related (or both absent) final states -/
theorem runOps_rel {B : Nat} {file : Bytes} (ops : List ROp) :
    ∀ (rf : Reader BufferedFile) (rs : Reader StringRSC), Sim B file rf rs →
      (runOps rf ops).1 = (runOps rs ops).1 ∧
      (match (runOps rf ops).2, (runOps rs ops).2 with
       | some rf', some rs' => Sim B file rf' rs'
       | none, none => True
       | _, _ => False) := by
  induction ops with
  | nil => intro rf rs h; exact ⟨rfl, h⟩
  | cons op rest ih =>
    intro rf rs h
    have hs := step_rel h op
    simp only [runOps]
    cases hf : rf.step op with
    | ok rf' a =>
      cases hg : rs.step op with
      | ok rs' b =>
        rw [hf, hg] at hs
        obtain ⟨hab, hsim⟩ := hs
        obtain ⟨h1, h2⟩ := ih rf' rs' hsim
        simp only [h1, hab]
        exact ⟨trivial, h2⟩
      | panic q => rw [hf, hg] at hs; exact hs.elim
      | spin => rw [hf, hg] at hs; exact hs.elim
    | panic p =>
      cases hg : rs.step op with
      | ok rs' b => rw [hf, hg] at hs; exact hs.elim
      | panic q => rw [hf, hg] at hs; simp only [RRel] at hs; simp [hs]
      | spin => rw [hf, hg] at hs; exact hs.elim
    | spin => rw [hf] at hs; cases hg : rs.step op <;> rw [hg] at hs <;> exact hs.elim

/-- the invariant holds in every state a history can reach -/
theorem runOps_inv {B : Nat} {file : Bytes} (ops : List ROp) :
    ∀ (r r' : Reader BufferedFile), RInv B file r → (runOps r ops).2 = some r' → RInv B file r' := by
  intro r r' h hr
  have hsim : Sim B file r (Reader.mk (StringRSC.mk file r.contents.currentOffset) r.offset file.length) :=
    ⟨h.2, h.1, rfl, rfl, rfl, rfl⟩
  have := (runOps_rel ops r _ hsim).2
  rw [hr] at this
  split at this
  · next rf' rs' heq _ => cases heq; exact ⟨this.sizef, this.inv⟩
  · next heq _ => cases heq
  · exact this.elim

/-- the in-memory reader never spins and never indexes out of range -/
def RRes.clean {α : Type} : RRes α → Prop
  | .ok _ _ => True
  | .panic (.index _) => False
  | .panic _ => True
  | .spin => False

theorem readContents_string_clean (rs : Reader StringRSC) (len : Int) : (rs.readContents len).clean := by
  have : ∃ c out e, ReadSeeker.read rs.contents len.toNat = ReadRes.ret c out e := by
    simp only [ReadSeeker.read, StringRSC.Read]
    split <;> exact ⟨_, _, _, rfl⟩
  obtain ⟨c, out, e, h⟩ := this
  simp only [Reader.readContents, h]
  cases e with
  | some e => exact trivial
  | none => simp only []; split <;> exact trivial

theorem seek_string_cases (rs : Reader StringRSC) (off : Int) :
    (∃ r', rs.Seek off = .ok r' []) ∨ (∃ e, rs.Seek off = .panic (.err e)) := by
  simp only [Reader.Seek, ReadSeeker.seek, StringRSC.Seek]
  split
  · next h => right; exact ⟨_, rfl⟩
  · next h => left; exact ⟨_, rfl⟩

theorem step_string_clean (rs : Reader StringRSC) (op : ROp) : (rs.step op).clean := by
  cases op with
  | seek off =>
    rcases seek_string_cases rs off with ⟨r', h⟩ | ⟨e, h⟩ <;> simp only [Reader.step, h] <;> exact trivial
  | read len =>
    simp only [Reader.step, Reader.Read]
    split
    · exact trivial
    · split
      · exact trivial
      · exact readContents_string_clean rs len
  | readAt len off =>
    simp only [Reader.step, Reader.ReadAt]
    split
    · exact trivial
    · split
      · exact trivial
      · rcases seek_string_cases rs off with ⟨r', h⟩ | ⟨e, h⟩
        · simp only [h]; exact readContents_string_clean r' len
        · simp only [h]; exact trivial

theorem runOps_string_clean (ops : List ROp) : ∀ rs : Reader StringRSC,
    Obs.spin ∉ (runOps rs ops).1 ∧ ∀ i, Obs.panic (.index i) ∉ (runOps rs ops).1 := by
  induction ops with
  | nil => intro rs; simp [runOps]
  | cons op rest ih =>
    intro rs
    have hc := step_string_clean rs op
    simp only [runOps]
    cases hs : rs.step op with
    | ok r' a =>
      obtain ⟨i1, i2⟩ := ih r'
      simp only [List.mem_cons, not_or]
      exact ⟨⟨by simp, i1⟩, fun i => ⟨by simp, i2 i⟩⟩
    | panic p =>
      rw [hs] at hc
      refine ⟨by simp, fun i => ?_⟩
      simp only [List.mem_singleton]
      intro he
      cases he
      exact hc
    | spin => rw [hs] at hc; exact hc.elim

end Vore.Files
