import Vore.Spec.Atoms
/-!
# Vore.Lemmas.AtomsFrame — the VM's leaf primitives are the data-level leaves of Spec.Atoms,
lifted to "advance the pc keeping every stack, or backtrack"
-/
namespace Vore
open Vore.Spec

/-- advance the pc with new data, or backtrack -/
def lift (s : VMState) : Option Data → Step
  | some d => .cont ⟨mkCore (s.core.pc + 1) d s.core.loops s.core.vars s.core.calls, s.bt⟩
  | none => s.backtrack

theorem lift_next (s : VMState) : s.next = lift s (some s.core.data) := by
  obtain ⟨⟨pc, pos, line, col, cur, loops, vars, calls, env⟩, bt⟩ := s
  rfl

theorem lift_consumeNext (text : Bytes) (s : VMState) (n : Nat) :
    s.consumeNext text n = lift s (some (consumeD text s.core.data n)) := by
  obtain ⟨⟨pc, pos, line, col, cur, loops, vars, calls, env⟩, bt⟩ := s
  simp only [VMState.consumeNext, Core.consume, lift, consumeD, Core.data, mkCore]

@[simp] theorem data_pos (c : Core) : c.data.pos = c.pos := rfl
@[simp] theorem data_env (c : Core) : c.data.env = c.env := rfl
@[simp] theorem lift_none (s : VMState) : lift s none = s.backtrack := rfl

theorem lift_ite (s : VMState) (c : Prop) {inst : Decidable c} (a b : Option Data) :
    lift s (@ite _ c inst a b) = @ite _ c inst (lift s a) (lift s b) := by
  split <;> rfl

theorem lift_anchor (s : VMState) (cond neg : Bool) : s.anchor cond neg = lift s (anchorD s.core.data cond neg) := by
  unfold VMState.anchor anchorD
  rw [lift_ite]
  simp only [lift_next, lift_none]

theorem lift_matchLit (text : Bytes) (s : VMState) (v : Bytes) (neg cl : Bool) :
    s.matchLit text v neg cl = lift s (litD text v neg cl s.core.data) := by
  unfold VMState.matchLit litD
  rw [lift_ite, lift_ite]
  simp only [lift_consumeNext, lift_none, data_pos]
  rfl

theorem lift_matchRangeLoop (text : Bytes) (s : VMState) (lo hi : Bytes) (neg : Bool) :
    ∀ k, matchRangeLoop text s lo hi neg k = lift s (rangeLoopD text lo hi neg s.core.data k) := by
  intro k
  induction k with
  | zero => rfl
  | succ k ih =>
    unfold matchRangeLoop rangeLoopD
    rw [lift_ite, lift_ite]
    simp only [lift_consumeNext, ih, data_pos]
    rfl

theorem lift_matchRange (text : Bytes) (s : VMState) (lo hi : Bytes) (neg : Bool) :
    s.matchRange text lo hi neg = lift s (rangeD text lo hi neg s.core.data) :=
  lift_matchRangeLoop text s lo hi neg _

theorem lift_matchClass (text : Bytes) (s : VMState) (c : Class) (neg : Bool) :
    s.matchClass text c neg = lift s (classD text c neg s.core.data) := by
  unfold VMState.matchClass classD
  cases c <;> simp only <;> (repeat rw [lift_ite]) <;>
    simp only [lift_consumeNext, lift_next, lift_none, lift_anchor, lift_matchRange, data_pos] <;> rfl

/-- `step` on a leaf instruction -/
theorem step_atom (pf : Nat) (prog : List Instr) (text : Bytes) (s : VMState) (a : Atom)
    (h : prog[s.core.pc]? = some (genAtom a)) : step pf prog text s = lift s (atomD text a s.core.data) := by
  unfold step
  rw [h]
  cases a with
  | str neg cl v => exact lift_matchLit text s v neg cl
  | cls neg c => exact lift_matchClass text s c neg
  | range lo hi => exact lift_matchRange text s lo hi false

theorem step_mvar (pf : Nat) (prog : List Instr) (text : Bytes) (s : VMState) (x : String)
    (h : prog[s.core.pc]? = some (.mvar x)) : step pf prog text s = lift s (backrefD text x s.core.data) := by
  unfold step
  rw [h]
  simp only [backrefD, data_env]
  cases s.core.env.get x with
  | none => rfl
  | some v =>
    cases v with
    | map m => rfl
    | str b =>
      simp only
      rw [lift_ite]
      simp only [lift_next, lift_matchLit]

end Vore
