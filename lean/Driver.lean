import Vore.Driver.Print
import Vore.Driver.Ops
import Vore.Driver.ParseRes
import Vore.Spec.Search
import Vore.Lemmas.Replace
import Vore.Lemmas.GenR
import Vore.Lemmas.SimR
import Vore.Lemmas.TotalR
import Vore.Lemmas.Flatten
import Vore.Model.Trace
/-!
# Driver — line protocol: one case per input line, one result line per case.
`<id> TAB <op> TAB <field> …`
-/
open Vore Vore.Driver

def vmFuel : Nat := 400000
def procFuel : Nat := 20000

/-- per-command result lengths of the model, used to cut the implementation's concatenated
result list into per-command lists (C03 is a statement about the result of one command) -/
def groupLens (t : Bytes) (bc : List BCmd) : List Nat :=
  bc.map (fun c => match runCmd procFuel vmFuel "text".toUTF8.toList t c with
    | some (.ok ms) => ms.length
    | _ => 0)

def cutBy : List Nat → List Match → List (List Match)
  | [], rest => if rest.isEmpty then [] else [rest]
  | n :: ns, ms => ms.take n :: cutBy ns (ms.drop n)

/-- C01: per command with a call-free body and no global patterns in scope, is the
implementation's result the window of `Spec.findAll`?  Returns (commands checked, all equal). -/
def specOk (text : Bytes) (cmds : List (Cmd × GenState)) (groups : List (List Match)) : Nat × Bool :=
  (cmds.zip groups).foldl (fun (acc : Nat × Bool) (cg : (Cmd × GenState) × List Match) =>
    let chk (amt : Amount) (e : Expr) : Nat × Bool :=
      if Spec.callFreeB e && cg.1.2.globals.isEmpty then
        match Spec.findAll text e with
        | some A => (acc.1 + 1, acc.2 && sameMatches ((Spec.window amt A).map eraseRepl) (cg.2.map eraseRepl))
        | none => (acc.1 + 1, false)
      else acc
    match cg.1.1 with
    | .find amt e => chk amt e
    | .replace amt e _ => chk amt e
    | _ => acc) (0, true)

/-- decidable form of `WfR` -/
def wfRB : Spec.RExpr → Bool
  | .empty => true
  | .seq a b => wfRB a && wfRB b
  | .atom _ => true
  | .backref _ => true
  | .call _ _ => true
  | .star _ _ body => wfRB body
  | .branch l r => wfRB l && wfRB r
  | .dec _ body => wfRB body
  | .sub _ _ body _ => wfRB body
  | .inl neg items => neg || !items.isEmpty

/-- the two-pass generator (resolve, then emit) applied to every command; `none` where resolution
rejects.  Returns the bytecode commands with the code fields replaced. -/
def twoPass (cmds : List Cmd) (bc : List BCmd) : Option (List BCmd) :=
  let rec go (cs : List (Cmd × BCmd)) (G : Spec.GEnv) (nid : Nat) : Option (List BCmd) :=
    match cs with
    | [] => some []
    | (c, b) :: rest =>
      let body? : Option (Expr × Spec.GEnv) := match c with
        | .find _ e => some (e, G)
        | .replace _ e _ => some (e, G)
        | .setPattern x e p => some (e, (x, e, p) :: G)
        | _ => none
      match body? with
      | none => (go rest G nid).map (b :: ·)
      | some (e, G') =>
        match Spec.resolveBody G e with
        | none => none
        | some r =>
          let g := genBody r nid
          let b' := match b with
            | .find a _ => BCmd.find a g.1
            | .replace a _ rs => BCmd.replace a g.1 rs
            | .setPattern x _ p => BCmd.setPattern x g.1 p
            | other => other
          (go rest G' g.2).map (b' :: ·)
  go (cmds.zip bc) [] 0

/-- stage-2 specification per command: (commands checked, all equal to the implementation) -/
def spec2Ok (text : Bytes) (cmds : List Cmd) (groups : List (List Match)) : Nat × Bool :=
  let rec go (cs : List Cmd) (gs : List (List Match)) (G : Spec.GEnv) (acc : Nat × Bool) : Nat × Bool :=
    match cs, gs with
    | c :: rest, g :: grest =>
      let chk (amt : Amount) (e : Expr) : Nat × Bool :=
        match Spec.resolveBody G e with
        | none => acc
        | some r =>
          -- the hypotheses of C01_refines_calls are re-checked on every case
          if !(decide (UniqueSubs r) && wfRB r) then (acc.1 + 1, false) else
          match Spec.findAllR text procFuel 64 r with
          | some A => (acc.1 + 1, acc.2 && sameMatches ((Spec.window amt A).map eraseRepl) (g.map eraseRepl))
          | none => acc
      match c with
      | .find amt e => go rest grest G (chk amt e)
      | .replace amt e _ => go rest grest G (chk amt e)
      | .setPattern x e p => go rest grest ((x, e, p) :: G) acc
      | _ => go rest grest G acc
    | _, _ => acc
  go cmds groups [] (0, true)

/-- ids of the subroutines called while nothing has been consumed since body entry -/
def unguardedCalls : Bool → Spec.RExpr → List Nat
  | g, .seq a b => unguardedCalls g a ++ unguardedCalls (g || mc a) b
  | g, .call _ id => if g then [] else [id]
  | g, .star _ _ b => unguardedCalls g b
  | g, .branch l r => unguardedCalls g l ++ unguardedCalls g r
  | g, .dec _ b => unguardedCalls g b
  | g, .sub _ _ b _ => unguardedCalls g b
  | _, _ => []

/-- a candidate rank table: longest chain of unguarded calls below each subroutine (the table is only
a witness: `guardedB`, proved sufficient in `Lemmas/TotalR.lean`, decides whether it is good) -/
def rankTable (ρ : Spec.Procs) : List (Nat × Nat) :=
  let step (tbl : List (Nat × Nat)) : List (Nat × Nat) :=
    ρ.map (fun ent => (ent.1, ((unguardedCalls false ent.2.2.1).map (fun id => rkOf tbl id + 1)).foldl max 0))
  (List.range (ρ.length + 1)).foldl (fun t _ => step t) (ρ.map (fun e => (e.1, 0)))

/-- per search command with subroutines: does `C10_terminates_guardedB` apply? (commands, guarded) -/
def guardInfo (cmds : List Cmd) : Nat × Nat :=
  let rec go (cs : List Cmd) (G : Spec.GEnv) (acc : Nat × Nat) : Nat × Nat :=
    match cs with
    | [] => acc
    | c :: rest =>
      let chk (e : Expr) : Nat × Nat :=
        match Spec.resolveBody G e with
        | none => acc
        | some r =>
          if (Spec.procsOf r).isEmpty then acc else
          let tbl := rankTable (Spec.procsOf r)
          let R := (tbl.map (·.2)).foldl max 0 + 1
          if decide (UniqueSubs r) && wfRB r && guardedB r tbl R then (acc.1 + 1, acc.2 + 1) else (acc.1 + 1, acc.2)
      match c with
      | .find _ e => go rest G (chk e)
      | .replace _ e _ => go rest G (chk e)
      | .setPattern x e p => go rest ((x, e, p) :: G) acc
      | _ => go rest G acc
  go cmds [] (0, 0)

/-- every search command with its amount replaced by `all` -/
def allAmounts : List BCmd → List BCmd
  | [] => []
  | .find _ code :: rest => .find ⟨true, 0, 0, 0⟩ code :: allAmounts rest
  | .replace _ code rep :: rest => .replace ⟨true, 0, 0, 0⟩ code rep :: allAmounts rest
  | c :: rest => c :: allAmounts rest

/-- the specification is evaluated (continuation-passing: its native stack grows with the number of
search steps) only where the VM model, which follows the same search order, finishes the whole scan of
every command within the step budget; otherwise the case is inconclusive for `spec=` / `spec2=` -/
def specAffordable (text : Bytes) (bc : List BCmd) : Bool :=
  match runProgram procFuel vmFuel "text".toUTF8.toList text (allAmounts bc) with
  | some (.ok _) => true
  | _ => false

deriving instance Repr for Vore.Spec.RExpr

/-- a fingerprint of the flattened form (calls expanded 4 levels deep, subroutine wrappers dropped) of every
search command: spellings with the same fingerprint fall under `C13_spellings_same_vm_results` -/
def flatInfo (cmds : List Cmd) : String :=
  let rec go (cs : List Cmd) (G : Spec.GEnv) (acc : List String) : List String :=
    match cs with
    | [] => acc.reverse
    | c :: rest =>
      let fp (e : Expr) : String :=
        match Spec.resolveBody G e with
        | none => "-"
        | some r => toString (hash (toString (repr (flattenN (Spec.procsOf r) 4 r))))
      match c with
      | .find _ e => go rest G (fp e :: acc)
      | .replace _ e _ => go rest G (fp e :: acc)
      | .setPattern x e p => go rest ((x, e, p) :: G) acc
      | _ => go rest G acc
  ",".intercalate (go cmds [] [])

/-- property predicates evaluated on the implementation's result (4th field) -/
def predsOn (cmds : List Cmd) (bc : List BCmd) (lens : List Nat) (text : Bytes) (impl : String) : String :=
  match parseMatches impl with
  | none => "PRED na"
  | some ms =>
    if lens.foldl (· + ·) 0 != ms.length then "PRED na" else
    let groups := cutBy lens ms
    let gs := genStates cmds {}
    let afford := specAffordable text bc
    let sp := if afford then specOk text gs groups else (0, true)
    "PRED faithful=" ++ boolStr (groups.all (Spec.faithfulFor text)) ++
      " replacement=" ++ boolStr (replacementsOk procFuel "text".toUTF8.toList gs groups) ++
      (if sp.1 == 0 then "" else " spec=" ++ boolStr sp.2) ++
      (let s2 := if afford then spec2Ok text cmds groups else (0, true); if s2.1 == 0 then "" else " spec2=" ++ boolStr s2.2) ++
      (if afford then "" else " specskipped=T")

def handleRun (fields : List String) : String :=
  match fields with
  | ast :: text :: rest =>
    match parseSExp ast >>= progOf, unhex text with
    | some cmds, some t =>
      match genProgram cmds {} with
      | .error _ => "CODE GENERR\tRES GENERR"
      | .ok bc =>
        let pred := match rest with
          | impl :: _ => "\t" ++ predsOn cmds bc (groupLens t bc) t impl
          | [] => ""
        let code2 := match twoPass cmds bc with
          | some bc2 => "\tCODE2 " ++ bytecodeStr bc2
          | none => ""
        let gi := guardInfo cmds
        let guard := (if gi.1 == 0 then "" else s!"\tGUARD {gi.2}/{gi.1}") ++ "\tFLAT " ++ flatInfo cmds
        "CODE " ++ bytecodeStr bc ++ "\tRES " ++ resStr (runProgram procFuel vmFuel "text".toUTF8.toList t bc) ++ pred ++ code2 ++ guard
    | _, _ => "BADCASE"
  | _ => "BADCASE"

/-- the fingerprint of the whole program's step sequence: the commands in order, each a traced `findMatches`
(`findMatchesT_fst`: the traced run returns what `findMatches` returns); stops where `runProgram` stops.
A replace command whose replacer panics still searched first, so its steps are counted. -/
def traceProgram (text : Bytes) : List BCmd → Tr → Tr × Bool
  | [], t => (t, true)
  | c :: cs, t =>
    let search (amt : Amount) (code : List Instr) : Tr × Bool :=
      let r := findMatchesT procFuel vmFuel code amt text t
      match r.1 with
      | some (.ok _) =>
        match runCmd procFuel vmFuel "text".toUTF8.toList text c with
        | some (.ok _) => traceProgram text cs r.2
        | _ => (r.2, false)
      | _ => (r.2, false)
    match c with
    | .find amt code => search amt code
    | .replace amt code _ => search amt code
    | _ => traceProgram text cs t

/-- `trace <ast> <text>`: step count and fingerprint of the model's run (correspondence level L5) -/
def handleTrace (fields : List String) : String :=
  match fields with
  | ast :: text :: _ =>
    match parseSExp ast >>= progOf, unhex text with
    | some cmds, some t =>
      match genProgram cmds {} with
      | .error _ => "TR GENERR"
      | .ok bc =>
        let r := traceProgram t bc {}
        if r.2 then s!"TR n={r.1.n} h={r.1.h}" else s!"TR incomplete n={r.1.n}"
    | _, _ => "BADCASE"
  | _ => "BADCASE"

/-- `runmany <ast> <text,text,…> <implres|implres|…>`: one program on many texts (C10 enumeration) -/
def handleRunMany (fields : List String) : String :=
  match fields with
  | ast :: texts :: rest =>
    match parseSExp ast >>= progOf with
    | some cmds =>
      match genProgram cmds {} with
      | .error _ => "RES GENERR"
      | .ok bc =>
        let ts := (texts.splitOn ",").filterMap unhex
        let impls := match rest with
          | r :: _ => r.splitOn "|"
          | [] => []
        let gs := genStates cmds {}
        let results := ts.map (fun t => resStr (runProgram procFuel vmFuel "text".toUTF8.toList t bc))
        let specFails := (ts.zip impls).filterMap (fun (ti : Bytes × String) =>
          match (if specAffordable ti.1 bc then parseMatches ti.2 else none) with
          | some ms =>
            let sp := specOk ti.1 gs [ms]
            if sp.1 == 1 && !sp.2 then some (hex ti.1) else none
          | none => none)
        let nspec := (ts.zip impls).foldl (fun n (ti : Bytes × String) =>
          match (if specAffordable ti.1 bc then parseMatches ti.2 else none) with
          | some ms => n + (specOk ti.1 gs [ms]).1
          | none => n) 0
        "RES " ++ "|".intercalate results ++ "\tSPEC " ++
          (if specFails.isEmpty then s!"ok {nspec}" else "fail " ++ " ".intercalate specFails)
    | none => "BADCASE"
  | _ => "BADCASE"

def handle (line : String) : String :=
  match line.splitOn "\t" with
  | id :: "run" :: fields => id ++ "\t" ++ handleRun fields
  | id :: "runmany" :: fields => id ++ "\t" ++ handleRunMany fields
  | id :: "trace" :: fields => id ++ "\t" ++ handleTrace fields
  | id :: op :: fields =>
    match Vore.Driver.extraOps.findSome? (fun h => h op fields) with
    | some r => id ++ "\t" ++ r
    | none => id ++ "\tBADOP"
  | id :: _ => id ++ "\tBADOP"
  | [] => "BADLINE"

partial def loop (h : IO.FS.Stream) (out : IO.FS.Stream) : IO Unit := do
  let line ← h.getLine
  if line.isEmpty then return ()
  let l := (line.dropEndWhile (· == (Char.ofNat 10))).toString
  out.putStrLn (handle l)
  loop h out

def main : IO Unit := do
  let stdin ← IO.getStdin
  let stdout ← IO.getStdout
  loop stdin stdout
