import Vore.Driver.Print
import Vore.Driver.Ops
/-!
# Driver — line protocol: one case per input line, one result line per case.
`<id> TAB <op> TAB <field> …`
-/
open Vore Vore.Driver

def vmFuel : Nat := 400000
def procFuel : Nat := 20000

def handleRun (fields : List String) : String :=
  match fields with
  | ast :: text :: _ =>
    match parseSExp ast >>= progOf, unhex text with
    | some cmds, some t =>
      match genProgram cmds {} with
      | .error _ => "CODE GENERR\tRES GENERR"
      | .ok bc =>
        "CODE " ++ bytecodeStr bc ++ "\tRES " ++ resStr (runProgram procFuel vmFuel "text".toUTF8.toList t bc)
    | _, _ => "BADCASE"
  | _ => "BADCASE"

def handle (line : String) : String :=
  match line.splitOn "\t" with
  | id :: "run" :: fields => id ++ "\t" ++ handleRun fields
  | id :: op :: fields =>
    match Vore.Driver.extraOps.findSome? (fun h => h op fields) with
    | some r => id ++ "\t" ++ r
    | none => id ++ "\tBADOP"
  | id :: _ => id ++ "\tBADOP"
  | [] => "BADLINE"

partial def loop (h : IO.FS.Stream) (out : IO.FS.Stream) : IO Unit := do
  let line ← h.getLine
  if line.isEmpty then return ()
  let l := (line.dropEndWhile (· == (Char.ofNat 10))).toString
  out.putStrLn (handle l)
  loop h out

def main : IO Unit := do
  let stdin ← IO.getStdin
  let stdout ← IO.getStdout
  loop stdin stdout
