import Vore.Model.Basic
import Vore.Model.Process
import Vore.Props.C20
import Vore.Model.Lexer
