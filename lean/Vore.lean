import Vore.Model.Basic
import Vore.Model.Process
import Vore.Props.C20
