import Vore.Model.Basic
import Vore.Model.Process
