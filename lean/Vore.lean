import Vore.Model.Basic
import Vore.Model.Process
import Vore.Props.C20
import Vore.Model.Lexer
import Vore.Props.C08parse
import Vore.Props.C15parse
import Vore.Props.C07
